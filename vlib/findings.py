"""known_findings.json: read-only at run time.

An entry is {id, properties, status: open|fixed, commit, what_fails,
signature: {predicate, verdict_kind?}, replay, excluded_by}.
A violation produced by a check carries `predicates`: the names of the history
predicates (computed by the engine from the recorded history, not from the
symptom) that hold for the failing case. A violation matches an OPEN entry of
the same property iff the entry's predicate is among them (and the verdict kind
agrees when the entry names one). Fixed entries suppress nothing.
"""
import json
import os

from .common import VERIF

PATH = os.path.join(VERIF, "known_findings.json")


def load():
    if not os.path.exists(PATH):
        return []
    with open(PATH) as fh:
        return json.load(fh)


def open_for(prop):
    return [f for f in load() if f.get("status") == "open" and prop in f.get("properties", [])]


def open_predicates(prop):
    return {f["signature"]["predicate"] for f in open_for(prop)}


def match(prop, violation, open_f=None):
    if open_f is None:
        open_f = open_for(prop)
    preds = set(violation.get("predicates") or [])
    for f in open_f:
        sig = f.get("signature", {})
        if sig.get("predicate") in preds:
            vk = sig.get("verdict_kind")
            if vk and violation.get("kind") not in (vk if isinstance(vk, list) else [vk]):
                continue
            return f["id"]
    return None


def still_fails(mod, f):
    rp = f.get("replay")
    if not rp or not hasattr(mod, "replay"):
        return False
    path = os.path.join(VERIF, rp)
    if not os.path.exists(path):
        return False
    with open(path) as fh:
        case = json.load(fh)
    viols = mod.replay(case, verbose=False)
    return any(match(None, v, [f]) for v in viols)
