"""Shared helpers: paths, seeds, result aggregation, evidence writing."""
import hashlib
import json
import os
import sys
import time

VERIF = os.path.dirname(os.path.dirname(os.path.abspath(__file__)))
REPO = os.environ.get("LOKY_REPO", "/repo")
PY = "/venv/bin/python"
WORK = os.path.join(VERIF, ".work")
DEPS = os.path.join(VERIF, ".deps")
_OUT = os.environ.get("VERIF_OUT_DIR") or VERIF  # mutant/self-test runs write elsewhere
EVIDENCE_DIR = os.path.join(_OUT, "evidence")
REPLAY_DIR = os.path.join(_OUT, "replays")
GUARD = "LOKY_VERIF"


class HarnessError(Exception):
    """Something is wrong with the machinery (exit 2), never a VIOLATION."""


def verif_seed():
    try:
        return int(os.environ.get("VERIF_SEED", "1"))
    except ValueError:
        return 1


def derive_seed(*parts):
    h = hashlib.sha256(repr(parts).encode()).digest()
    return int.from_bytes(h[:8], "big") & 0x7FFFFFFFFFFFFFFF


def case_hash(obj):
    return hashlib.sha256(
        json.dumps(obj, sort_keys=True, default=repr).encode()
    ).hexdigest()[:16]


def add_repo_to_path():
    if REPO not in sys.path:
        sys.path.insert(0, REPO)
    if os.path.isdir(DEPS) and DEPS not in sys.path:
        sys.path.append(DEPS)


class Acc:
    """Accumulator for one shard (or a merged run). JSON-serialisable."""

    def __init__(self):
        self.evaluations = 0
        self.nontrivial = set()  # hashes of distinct non-trivial cases
        self.samples = []
        self.hist = {}
        self.violations = []  # dicts: {kind, detail, case, finding?}
        self.known = []  # dicts: {finding, detail}
        self.inconclusive = 0
        self.notes = []

    def count(self, key, n=1):
        self.hist[key] = self.hist.get(key, 0) + n

    def case(self, case, nontrivial, sample_cap=4):
        self.evaluations += 1
        if nontrivial:
            h = case_hash(case)
            if h not in self.nontrivial:
                self.nontrivial.add(h)
                if len(self.samples) < sample_cap:
                    self.samples.append(case)

    def to_json(self):
        return {
            "evaluations": self.evaluations,
            "nontrivial": sorted(self.nontrivial),
            "samples": self.samples,
            "hist": self.hist,
            "violations": self.violations,
            "known": self.known,
            "inconclusive": self.inconclusive,
            "notes": self.notes,
        }

    @classmethod
    def from_json(cls, d):
        a = cls()
        a.evaluations = d["evaluations"]
        a.nontrivial = set(d["nontrivial"])
        a.samples = d["samples"]
        a.hist = d["hist"]
        a.violations = d["violations"]
        a.known = d["known"]
        a.inconclusive = d.get("inconclusive", 0)
        a.notes = d.get("notes", [])
        return a

    def merge(self, other, sample_cap=6):
        self.evaluations += other.evaluations
        self.nontrivial |= other.nontrivial
        for s in other.samples:
            if len(self.samples) < sample_cap:
                self.samples.append(s)
        for k, v in other.hist.items():
            self.hist[k] = self.hist.get(k, 0) + v
        self.violations += other.violations
        self.known += other.known
        self.inconclusive += other.inconclusive
        for n in other.notes:
            if n not in self.notes:
                self.notes.append(n)


def write_replay(prop, case, tag=None):
    os.makedirs(REPLAY_DIR, exist_ok=True)
    h = tag or case_hash(case)
    path = os.path.join(REPLAY_DIR, f"{prop}-{h}.json")
    with open(path, "w") as fh:
        json.dump(case, fh, indent=1, sort_keys=True, default=repr)
    return path


def write_evidence(prop, tier, seed, acc, rule, assumptions, wall_s,
                   level="exploration", extra=None, exhaustive=None):
    os.makedirs(EVIDENCE_DIR, exist_ok=True)
    cov = {
        "evaluations": acc.evaluations,
        "distinct_nontrivial": len(acc.nontrivial),
        "rule": rule,
        "samples": acc.samples,
        "histograms": dict(sorted(acc.hist.items())),
        "inconclusive": acc.inconclusive,
        "known_findings_reported": [k["finding"] for k in acc.known],
    }
    if acc.notes:
        cov["notes"] = acc.notes
    if exhaustive is not None:
        cov["exhaustive"] = bool(exhaustive)
    if extra:
        cov.update(extra)
    ev = {
        "property_id": prop,
        "tier": tier,
        "seed": seed,
        "level": level,
        "coverage": cov,
        "assumptions": assumptions,
        "wall_s": round(wall_s, 2),
        "violations": len(acc.violations),
    }
    path = os.path.join(EVIDENCE_DIR, f"{prop}.json")
    tmp = path + ".tmp"
    with open(tmp, "w") as fh:
        json.dump(ev, fh, indent=1, default=repr)
    os.replace(tmp, path)
    return path


class Timer:
    def __init__(self):
        self.t0 = time.monotonic()

    def s(self):
        return time.monotonic() - self.t0
