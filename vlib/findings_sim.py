"""History predicates (known-finding signatures) and by-construction exclusions for the SIM engine.

A predicate is a statement about the *history* of a run (where an abrupt death was placed, what the program
did), not about the symptom. known_findings.json names one predicate per open finding; `excluded_by` names the
exclusion switch below that keeps newly generated cases away from the trigger (counted in evidence)."""
import copy

from . import findings


# ----------------------------------------------------------------------------- death-point tags
def death_tags(frames, partial, held=None):
    """frames: innermost-first list 'file:function:source' of the victim's main task; held: names of the kernel
    semaphores the victim holds (None = unknown). Returns set of tags."""
    tags = set()
    fr = frames or []
    top = fr[0] if fr else ""
    pw = ""
    for s in fr:
        if ":_process_worker:" in s:
            pw = s.split(":", 2)[2]
            break
    if partial and 0 < partial[0] < partial[1]:
        tags.add("mid_message")
    in_put = any(s.startswith("queues.py:put:") for s in fr)
    in_get = any(s.startswith("queues.py:get:") for s in fr)
    if in_put and "result_queue.put(pid)" in pw and top.startswith("synchronize.py:__exit__"):
        tags.add("announced_holding_wlock")
    if in_put and not top.startswith("synchronize.py:__enter__") and "put(pid)" not in pw and \
            (top.startswith("synchronize.py:__exit__") or "send" in top):
        tags.add("holds_wlock_result")
    if in_put and not top.startswith("synchronize.py:__enter__"):
        tags.add("holds_wlock")
    if "processes_management_lock.release()" in pw or ("processes_management_lock.acquire" in pw and held):
        tags.add("holds_mgmt_lock")
    if in_get:
        g = [s for s in fr if s.startswith("queues.py:get:")][0].split(":", 2)[2]
        waiting = ("_rlock.acquire" in g) or ("with self._rlock" in g and top.startswith("synchronize.py:__enter__"))
        if held is not None and ("_rlock" in g):
            waiting = not held          # parked at the acquire itself: the kernel table says whether it already has it
        if not waiting and "loads" not in g:
            tags.add("holds_rlock")
    if in_put and held and top.startswith("synchronize.py:__enter__"):
        tags.add("holds_wlock")
        if "put(pid)" not in pw:
            tags.add("holds_wlock_result")
    return tags


def predicates(H, v):
    preds = set()
    # F-i's stuck state: a manager thread sits in join_executor_internals (the graceful path: it joins the workers instead of
    # killing them) while a worker is still alive and a queue lock is held by a dead one
    graceful = any(t["state"] == "blocked" and t["pid"] == 1000 and any(":join_executor_internals:" in fr for fr in (t["where"] or []))
                   for t in H.tasks)
    # (second form of the same stuck state: with more survivors than call-queue slots the sentinels do not fit, nobody can
    # read them, and after its cool-down the manager gives up with queue.Full inside shutdown_workers instead of blocking)
    graceful = graceful or any(c[0].startswith("ExecutorManagerThread") and c[2].startswith("Full") and
                               any("shutdown_workers" in fr for fr in (c[3] or [])) for c in H.task_crashes)
    survivors = any(p["alive"] for p in H.procs)
    for p in H.procs:
        d = p["death"]
        if not d:
            continue
        tags = death_tags(d.get("where"), d.get("partial_msg"), d.get("sems_held"))
        if ("holds_rlock" in tags or "holds_wlock" in tags) and graceful and survivors:
            preds.add("death:holds_queue_lock_and_graceful_shutdown")
        for t in tags:
            preds.add("death:" + t + (":injected" if d["injected"] else ":" + str(d.get("by"))))
            preds.add("death:" + t)
    for c in H.task_crashes:
        name = c[0].rstrip("0123456789")
        fn = (c[3] or ["?"])[-1].split(":")[-1]
        preds.add(f"crash:{name}:{c[2].split(':')[0]}:{fn}")
    cfg = H.case["config"]
    nowait = any(o["op"][0] == "shutdown" and not o["op"][1] for o in H.ops)
    deleted = any(r.get("deleted") for r in H.executors)
    abrupt = any(p["death"] for p in H.procs)
    pending = any(f["state"] not in ("FINISHED", "CANCELLED", "CANCELLED_AND_NOTIFIED") for f in H.futures.values())
    respawn_path = cfg.get("timeout") is not None or bool(cfg.get("mem"))
    if respawn_path and (nowait or deleted) and pending and not abrupt and not any(p["alive"] for p in H.procs):
        preds.add("all_workers_left_after_executor_released_with_pending")
    if H.case["config"]["executor"] == "reusable" and any(
            o["op"][0] == "callback" and o["op"][2] == "submit" for o in H.ops):
        preds.add("callback_submits_on_reusable_executor")
    if cfg["executor"] == "reusable":
        cap = 2 * cfg.get("cpu_count", 2) + 1
        mws = [cfg["max_workers"]] + [op[1]["max_workers"] for ops in H.case["program"] for op in ops if op[0] == "get"]
        if max(mws) > cap:
            preds.add("max_workers_exceeds_reusable_queue_capacity")
    if H.verdict == "livelock":
        det = " ".join(H.verdict_detail or [])
        if "_resize" in det:
            preds.add("livelock_in_resize_liveness_poll" if "is_alive" in det or "all(" in det else "livelock_in_resize")
    return sorted(preds)


# ----------------------------------------------------------------------------- exclusions
FORCED = None   # replay: the exact exclusion set the case was generated under


def _open_exclusions():
    out = set()
    import os
    if FORCED is not None:
        return set(FORCED)
    if os.environ.get("VERIF_NO_EXCLUSIONS"):
        return out
    for f in findings.load():
        if f.get("status") == "open" and f.get("excluded_by"):
            for x in str(f["excluded_by"]).split(","):
                out.add(x.strip())
    return out


def install_exclusions(w, ctx, prop):
    from sim.world import where
    ex = _open_exclusions()
    veto_tags = {}
    for name, tag in (("kill:mid_message", "mid_message"), ("kill:announced_holding_wlock", "announced_holding_wlock"),
                      ("kill:holds_mgmt_lock", "holds_mgmt_lock"), ("kill:holds_rlock", "holds_rlock")):
        if name in ex:
            veto_tags[tag] = name
    w.mgmt_probe_atomic = "kill:holds_mgmt_lock" in ex
    rlock_sd = "kill:holds_queue_lock_during_shutdown" in ex
    if veto_tags or rlock_sd:
        def kill_veto(p, t):
            mip = p.msg_in_progress
            partial = None
            if mip is not None and mip[0]._pipe is not None:
                partial = [mip[0]._pipe.written - mip[1], mip[2] + 4]
            held = sorted(k.name for k in w.sems.values() if any(h[0] == p.pid for h in k.holders))
            tags = death_tags(where(t, full=True), partial, held)
            for tg in tags:
                if tg in veto_tags:
                    return veto_tags[tg]
            if rlock_sd and ("holds_rlock" in tags or "holds_wlock" in tags) and (ctx.exit_called or any(
                    r.get("shutdown_step") is not None for r in ctx.executors)):
                return "kill:holds_queue_lock_during_shutdown"
            return None
        w.kill_veto = kill_veto


def active_exclusions():
    return sorted(_open_exclusions())


def adjust_case(case):
    """Program-level exclusions (idempotent). Returns (case, n_changes)."""
    ex = _open_exclusions()
    cfg = case["config"]
    n = 0
    respawn_path = cfg.get("timeout") is not None or bool(cfg.get("mem"))
    if "program:no_release_with_pending_when_respawn_possible" in ex and respawn_path:
        case = copy.deepcopy(case)
        for ops in case["program"]:
            if ops and ops[0][0] == "sleep" and len(ops) == 2 and ops[1][0] in ("open_gate", "kill"):
                continue
            new = []
            for op in ops:
                if op[0] == "shutdown" and not op[1]:
                    op = ["shutdown", True, op[2]]
                    n += 1
                if op[0] in ("del",):
                    new.append(["wait_all"])
                    n += 1
                new.append(op)
            last = new[-1][0] if new else None
            if cfg["executor"] == "plain" and last not in ("wait_all", "shutdown", "exit"):
                new.append(["wait_all"])
                n += 1
            ops[:] = new
    if "config:reusable_queue_capacity_ge_max_workers" in ex and cfg["executor"] == "reusable" and case.get("_final_max_workers"):
        mws = [cfg["max_workers"]] + [op[1]["max_workers"] for ops in case["program"] for op in ops if op[0] == "get"]
        need = (max(mws) - 1 + 1) // 2      # smallest cpu_count with 2*cpu_count+1 >= max_workers
        if cfg.get("cpu_count", 2) < need:
            case = copy.deepcopy(case)
            case["config"]["cpu_count"] = need
            cfg = case["config"]
            n += 1
    if "program:no_callback_submit_on_reusable" in ex and cfg["executor"] == "reusable":
        if any(op[0] == "callback" and op[2] == "submit" for ops in case["program"] for op in ops):
            case = copy.deepcopy(case)
            for ops in case["program"]:
                for op in ops:
                    if op[0] == "callback" and op[2] == "submit":
                        op[2] = "raise"
                        n += 1
    return case, n
