"""Run shard jobs in parallel OS processes (files, never pipes; own sessions; killpg on exit)."""
import importlib
import json
import os
import shutil
import signal
import subprocess
import sys
import time
import traceback

from .common import PY, VERIF, WORK, DEPS, REPO, Acc, HarnessError


def _env():
    env = dict(os.environ)
    pp = [VERIF, REPO]
    if os.path.isdir(DEPS):
        pp.append(DEPS)
    env["PYTHONPATH"] = os.pathsep.join(pp)
    env["PYTHONHASHSEED"] = "0"
    env["PYTHONDONTWRITEBYTECODE"] = "1"
    env.setdefault("LOKY_REPO", REPO)
    return env


def run_jobs(jobs, nproc=16, timeout_s=3600, tag="run", env_extra=None):
    """jobs: list of dicts {module, func, kwargs}. Each runs `module.func(**kwargs)` in a
    fresh interpreter and must return an Acc. Returns (merged Acc, not_run_count).

    A job that dies without writing its output is a harness error (exit 2),
    except when it exceeded the wall-clock cap: then it is counted as not run."""
    base = os.path.join(WORK, f"{tag}-{os.getpid()}")
    os.makedirs(base, exist_ok=True)
    env = _env()
    if env_extra:
        env.update(env_extra)
    pending = list(enumerate(jobs))
    running = {}
    merged = Acc()
    not_run = 0
    errors = []
    t_end = time.monotonic() + timeout_s
    try:
        while pending or running:
            while pending and len(running) < nproc:
                i, job = pending.pop(0)
                jf = os.path.join(base, f"job{i}.json")
                of = os.path.join(base, f"out{i}.json")
                lf = os.path.join(base, f"log{i}.txt")
                with open(jf, "w") as fh:
                    json.dump({k: v for k, v in job.items() if k != "_retried"}, fh)
                log = open(lf, "wb")
                p = subprocess.Popen(
                    [PY, "-u", "-m", "vlib.shards", jf, of],
                    stdin=subprocess.DEVNULL, stdout=log, stderr=subprocess.STDOUT,
                    env=env, cwd=VERIF, start_new_session=True,
                )
                log.close()
                running[i] = (p, of, lf, job)
            done = []
            for i, (p, of, lf, job) in running.items():
                rc = p.poll()
                if rc is None:
                    if time.monotonic() > t_end:
                        _killpg(p)
                        not_run += 1
                        done.append(i)
                    continue
                done.append(i)
                _killpg(p)  # stragglers of the shard's session
                if os.path.exists(of):
                    with open(of) as fh:
                        d = json.load(fh)
                    if d.get("harness_error"):
                        errors.append(f"job {i} {job['module']}.{job['func']}: {d['harness_error']}")
                    else:
                        merged.merge(Acc.from_json(d["acc"]))
                elif rc is not None and rc < 0 and not job.get("_retried"):
                    # killed from outside (shared machine): run it once more rather than failing the whole check
                    job["_retried"] = True
                    pending.append((i, job))
                else:
                    tail = ""
                    try:
                        with open(lf, "rb") as fh:
                            tail = fh.read()[-3000:].decode("utf8", "replace")
                    except OSError:
                        pass
                    errors.append(f"job {i} {job['module']}.{job['func']} exited rc={rc} without output:\n{tail}")
            for i in done:
                running.pop(i)
            if not done:
                time.sleep(0.02)
    finally:
        for p, *_ in running.values():
            _killpg(p)
        shutil.rmtree(base, ignore_errors=True)
    if errors:
        raise HarnessError("; ".join(errors[:3]) + (f" (+{len(errors)-3} more)" if len(errors) > 3 else ""))
    return merged, not_run


def _killpg(p):
    try:
        os.killpg(p.pid, signal.SIGKILL)
    except (ProcessLookupError, PermissionError):
        pass
    try:
        p.wait(timeout=5)
    except Exception:
        pass


def _main(jobfile, outfile):
    with open(jobfile) as fh:
        job = json.load(fh)
    out = {}
    try:
        mod = importlib.import_module(job["module"])
        acc = getattr(mod, job["func"])(**job.get("kwargs", {}))
        out["acc"] = acc.to_json()
    except HarnessError as e:
        out["harness_error"] = f"{e}"
    except BaseException:
        out["harness_error"] = traceback.format_exc()[-4000:]
    tmp = outfile + ".tmp"
    with open(tmp, "w") as fh:
        json.dump(out, fh, default=repr)
    os.replace(tmp, outfile)
    sys.stdout.flush()
    os._exit(0)  # parked SIM threads / leftover handles must not block exit


if __name__ == "__main__":
    _main(sys.argv[1], sys.argv[2])
