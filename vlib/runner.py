"""CLI behind ./check."""
import argparse
import importlib
import json
import os
import shutil
import signal
import sys
import traceback

from . import common, findings
from .common import HarnessError, Timer


def main(argv=None):
    ap = argparse.ArgumentParser()
    ap.add_argument("prop")
    ap.add_argument("--tier", default=os.environ.get("VERIF_TIER", "quick"))
    ap.add_argument("--replay", default=None)
    ap.add_argument("--verbose", action="store_true")
    a = ap.parse_args(argv)
    tier = a.tier if a.tier in ("quick", "thorough") else "quick"
    prop = a.prop.upper()
    seed = common.verif_seed()
    os.makedirs(common.WORK, exist_ok=True)
    try:
        _sanity()
        mod = importlib.import_module(f"props.{prop.lower()}")
        if a.replay:
            return _replay(mod, prop, a.replay)
        return _run(mod, prop, tier, seed)
    except HarnessError as e:
        print(f"HARNESS-ERROR: property={prop} {e}")
        return 2
    except Exception:
        print(f"HARNESS-ERROR: property={prop}\n{traceback.format_exc()}")
        return 2
    finally:
        _cleanup()


def _sanity():
    common.add_repo_to_path()
    import loky

    lf = os.path.realpath(os.path.dirname(loky.__file__))
    want = os.path.realpath(os.path.join(common.REPO, "loky"))
    if lf != want:
        raise HarnessError(f"loky imported from {lf}, expected {want}")


def _replay(mod, prop, path):
    with open(path) as fh:
        case = json.load(fh)
    if not hasattr(mod, "replay"):
        raise HarnessError("no replay support for this property")
    viols = mod.replay(case, verbose=True)
    if viols:
        for v in viols:
            print(f"REPLAY-FAILS: property={prop} kind={v.get('kind')} detail={v.get('detail')}")
        print(f"VIOLATION property={prop} replay={path}")
        return 1
    print(f"REPLAY-PASSES: property={prop} {path}")
    return 0


def _run(mod, prop, tier, seed):
    t = Timer()
    open_f = findings.open_for(prop)
    acc = mod.run(tier=tier, seed=seed)
    # 1. replay of every open finding of this property: report while it still fails
    reported = set()
    for f in open_f:
        still = findings.still_fails(mod, f)
        if still:
            reported.add(f["id"])
            acc.known.append({"finding": f["id"], "detail": f["what_fails"]})
            print(f"KNOWN-FINDING: property={prop} {f['id']}: {f['what_fails']}")
    # 2. classify violations found by search
    real = []
    for v in acc.violations:
        fid = findings.match(prop, v, open_f)
        if fid is not None:
            acc.count(f"known_hit:{fid}")
            if fid not in reported:
                reported.add(fid)
                f = [x for x in open_f if x["id"] == fid][0]
                acc.known.append({"finding": fid, "detail": f["what_fails"]})
                print(f"KNOWN-FINDING: property={prop} {fid}: {f['what_fails']}")
        else:
            real.append(v)
    acc.violations = real
    extra = getattr(mod, "extra_evidence", lambda acc, tier: None)(acc, tier)
    common.write_evidence(
        prop, tier, seed, acc, mod.RULE, mod.ASSUMPTIONS, t.s(),
        level=getattr(mod, "LEVEL", "exploration"), extra=extra,
        exhaustive=getattr(mod, "exhaustive", lambda tier: None)(tier),
    )
    print(f"{prop} tier={tier} seed={seed} evaluations={acc.evaluations} "
          f"distinct_nontrivial={len(acc.nontrivial)} inconclusive={acc.inconclusive} "
          f"violations={len(real)} wall={t.s():.1f}s")
    if len(acc.nontrivial) < 2 and not real:
        raise HarnessError("fewer than 2 distinct non-trivial cases: generator is vacuous")
    if real:
        seen = set()
        for v in real:
            key = (v.get("kind"), v.get("where"))
            if key in seen or len(seen) >= 5:
                continue
            seen.add(key)
            path = common.write_replay(prop, v.get("case", v))
            print(f"  kind={v.get('kind')} detail={str(v.get('detail'))[:300]}")
            print(f"VIOLATION property={prop} replay={path}")
        return 1
    return 0


def _cleanup():
    # per-run scratch is removed by whoever created it; drop the parent when empty
    try:
        os.rmdir(common.WORK)
    except OSError:
        pass


if __name__ == "__main__":
    rc = main()
    sys.stdout.flush()
    sys.stderr.flush()
    os._exit(rc)  # skip interpreter-exit finalizers of simulated objects
