"""Simulated kernel objects and the stdlib-shaped shims loky's real code is run against."""
import errno
import io
import pickle
import sys
import time as _realtime
import types
import threading as _rt
from multiprocessing import connection as _mpc
from multiprocessing import context as _mpctx

from . import world as _w
from .world import StaleWorld, HarnessBug

PIPE_CAP = 65536
PIPE_BUF = 4096
SIM_MAX_MSG = 1000000     # simulated upper bound of one send_bytes message
RECURSIVE_MUTEX, SEMAPHORE = 0, 1


def W():
    w = _w.W
    if w is None:
        raise StaleWorld()
    return w


# =============================================================================
# pipes / connections
class Pipe_:
    def __init__(self, w, name=""):
        self.w = w
        self.buf = bytearray()
        self.readers = set()
        self.writers = set()
        self.name = name
        self.id = len(w.pipes)
        w.pipes.append(self)
        self.written = 0
        self.read = 0


_fd_counter = [100]


def _sim_write(handle, buf):
    w = W()
    c = w.fdtable.get(handle)
    if c is None or c._pipe is None:
        raise OSError(errno.EBADF, "Bad file descriptor")
    pipe = c._pipe
    data = bytes(buf)
    n = len(data)
    if n == 0:
        return 0
    sent = 0
    while sent < n:
        need = (n - sent) if (n - sent) <= PIPE_BUF else 1

        def can():
            return (not pipe.readers) or c._pipe is None or PIPE_CAP - len(pipe.buf) >= need

        w.block_until(can, None, what=f"write(pipe{pipe.id}:{pipe.name})")
        if c._pipe is None:
            raise OSError(errno.EBADF, "Bad file descriptor")
        if not pipe.readers:
            raise BrokenPipeError(errno.EPIPE, "Broken pipe")
        room = PIPE_CAP - len(pipe.buf)
        k = min(room, n - sent)
        pipe.buf += data[sent:sent + k]
        pipe.written += k
        sent += k
        w.version += 1
    return n


def _sim_read(handle, size):
    w = W()
    c = w.fdtable.get(handle)
    if c is None or c._pipe is None:
        raise OSError(errno.EBADF, "Bad file descriptor")
    pipe = c._pipe

    def can():
        return len(pipe.buf) > 0 or not pipe.writers or c._pipe is None

    w.block_until(can, None, what=f"read(pipe{pipe.id}:{pipe.name})")
    if c._pipe is None:
        raise OSError(errno.EBADF, "Bad file descriptor")
    if not pipe.buf:
        return b""
    k = min(size, len(pipe.buf))
    out = bytes(pipe.buf[:k])
    del pipe.buf[:k]
    pipe.read += k
    w.version += 1
    return out


class SimConnection(_mpc.Connection):
    """multiprocessing.connection.Connection with the four syscalls replaced: the stdlib framing code
    (_send_bytes/_recv_bytes/_send/_recv, send/recv/poll/close) runs unchanged."""

    def __init__(self, pipe, end, owner):
        _fd_counter[0] += 1
        super().__init__(_fd_counter[0], readable=(end == "r"), writable=(end == "w"))
        self._pipe = pipe
        self._end = end
        self._owner = owner
        self._w = pipe.w
        (pipe.readers if end == "r" else pipe.writers).add(self)
        owner.fds.add(self)
        pipe.w.fdtable[self._handle] = self
        pipe.w.version += 1

    _send = types.FunctionType(_mpc.Connection._send.__code__, _mpc.Connection._send.__globals__,
                               "_send", (_sim_write,))
    _recv = types.FunctionType(_mpc.Connection._recv.__code__, _mpc.Connection._recv.__globals__,
                               "_recv", (_sim_read,))

    def _send_bytes(self, buf):
        if len(buf) > SIM_MAX_MSG:
            # stands for the platform limit of Connection.send_bytes (struct.error on an over-long message)
            import struct
            raise struct.error("'i' format requires -2147483648 <= number <= 2147483647")
        # bookkeeping only (which message is in flight, how much of it is in the pipe); framing is stdlib's
        pipe = self._pipe
        self._owner.msg_in_progress = (self, pipe.written if pipe is not None else 0, len(buf))
        try:
            return _mpc.Connection._send_bytes(self, buf)
        finally:
            self._owner.msg_in_progress = None

    def _kernel_close(self):
        pipe = self._pipe
        if pipe is None:
            return
        (pipe.readers if self._end == "r" else pipe.writers).discard(self)
        self._pipe = None
        self._w.version += 1

    def _close(self):
        w = _w.W
        if w is not self._w or w.verdict is not None:
            self._kernel_close()
            return
        w.sched_point()
        self._kernel_close()
        self._owner.fds.discard(self)

    def __del__(self):
        try:
            if self._handle is not None and self._pipe is not None:
                self._kernel_close()
                self._owner.fds.discard(self)
        except Exception:
            pass

    def _poll(self, timeout):
        return bool(sim_wait([self], timeout))

    def __reduce__(self):
        _mpctx.assert_spawning(self)
        if self._pipe is None:
            raise OSError("handle is closed")
        return _rebuild_conn, (self._pipe.id, self._end)

    def _ready(self):
        p = self._pipe
        return p is None or len(p.buf) > 0 or not p.writers


def _rebuild_conn(pipe_id, end):
    w = W()
    if w.unpickle_proc is None:
        raise HarnessBug("connection unpickled outside a simulated process start")
    return SimConnection(w.pipes[pipe_id], end, w.unpickle_proc)


def sim_pipe(duplex=False):
    if duplex:
        raise HarnessBug("duplex pipes are not modelled")
    w = W()
    w.sched_point()
    p = Pipe_(w)
    owner = w.cur.proc
    return SimConnection(p, "r", owner), SimConnection(p, "w", owner)


class Sentinel:
    def __init__(self, proc):
        self.proc = proc

    def _ready(self):
        return not self.proc.alive

    def __repr__(self):
        return f"<sentinel {self.proc.pid}>"


def sim_wait(object_list, timeout=None):
    w = W()
    objs = list(object_list)

    def ready():
        return [o for o in objs if o._ready()]

    ok = w.block_until(lambda: bool(ready()), timeout, what="wait(" + ",".join(_wname(o) for o in objs) + ")")
    if not ok:
        return []
    return ready()


def _wname(o):
    if isinstance(o, Sentinel):
        return f"sentinel{o.proc.pid}"
    p = getattr(o, "_pipe", None)
    return f"pipe{p.id}" if p is not None else "closed"


# =============================================================================
# named semaphores
class KSem:
    def __init__(self, name, kind, value, maxvalue):
        self.name = name
        self.kind = kind
        self.value = value
        self.maxvalue = maxvalue
        self.holders = []   # diagnostic: (pid, task name) of successful acquirers not yet released (best effort)


class SimSemLock:
    """_multiprocessing.SemLock re-implemented over the simulated semaphore table (semantics of semaphore.c)."""
    SEM_VALUE_MAX = 2147483647

    def __init__(self, kind, value, maxvalue, name, unlink):
        w = W()
        w.sched_point()
        if name in w.sems:
            raise FileExistsError(name)
        if kind not in (RECURSIVE_MUTEX, SEMAPHORE):
            raise ValueError("unrecognized kind")
        self._k = KSem(name, kind, value, maxvalue)
        w.sems[name] = self._k
        w.sem_created.append(name)
        self._w = w
        self.kind = kind
        self.maxvalue = maxvalue
        self.name = name
        self.handle = id(self._k) & 0xFFFFFFF
        self._cnt = 0
        self._last = None
        w.version += 1

    @classmethod
    def _rebuild(cls, handle, kind, maxvalue, name):
        w = W()
        k = w.sems.get(name)
        if k is None:
            raise FileNotFoundError(errno.ENOENT, "No such file or directory")
        self = cls.__new__(cls)
        self._k = k
        self._w = w
        self.kind = kind
        self.maxvalue = maxvalue
        self.name = name
        self.handle = id(k) & 0xFFFFFFF
        self._cnt = 0
        self._last = None
        return self

    def _mine(self):
        return self._cnt > 0 and self._last is self._w.cur

    def acquire(self, block=True, timeout=None):
        w = self._w
        w.check_alive()
        if self.kind == RECURSIVE_MUTEX and self._mine():
            self._cnt += 1
            return True
        k = self._k
        if not block:
            timeout = 0
        elif timeout is not None and timeout < 0:
            timeout = 0
        ok = w.block_until(lambda: k.value > 0, timeout, what=f"sem_wait({k.name})")
        if not ok:
            return False
        k.value -= 1
        k.holders.append((w.cur.proc.pid, w.cur.name))
        self._cnt += 1
        self._last = w.cur
        w.version += 1
        if not block and w.cur.proc is not w.root and w.mgmt_probe_atomic and _in_mgmt_probe():
            # open finding F-e: nothing may preempt (hence kill) a worker inside its two-statement management-lock probe
            w.atomic_depth += 1
            w.atomic_owner = w.cur
            w.excluded["atomic:mgmt_probe"] = w.excluded.get("atomic:mgmt_probe", 0) + 1
        w.sched_point()        # just acquired: a crash / preemption here happens while holding it
        return True

    def release(self):
        w = self._w
        w.check_alive()
        k = self._k
        if self.kind == RECURSIVE_MUTEX:
            if not self._mine():
                raise AssertionError("attempt to release recursive lock not owned by thread")
            if self._cnt > 1:
                self._cnt -= 1
                return
        else:
            if k.value >= self.maxvalue:
                raise ValueError("semaphore or lock released too many times")
        w.sched_point()        # still holding it: a crash / preemption here leaves the semaphore taken
        k.value += 1
        w.sem_release_log.append((w.steps, k.name, w.cur.tid))
        me = (w.cur.proc.pid, w.cur.name)
        if me in k.holders:
            k.holders.remove(me)
        elif k.holders:
            k.holders.pop(0)
        self._cnt -= 1
        w.version += 1
        if w.atomic_depth and w.atomic_owner is w.cur:
            w.atomic_depth -= 1
            w.atomic_owner = None
        w.sched_point()        # right after the post: whoever waited for it (or polls it) may run first

    def __enter__(self):
        return self.acquire()

    def __exit__(self, *a):
        return self.release()

    def _count(self):
        return self._cnt

    def _is_mine(self):
        return self._mine()

    def _get_value(self):
        self._w.check_alive()
        self._w.sched_point()
        return self._k.value

    def _is_zero(self):
        self._w.check_alive()
        self._w.sched_point()
        return self._k.value == 0

    def _after_fork(self):
        self._cnt = 0


def _in_mgmt_probe():
    import linecache
    f = sys._getframe(2)
    for _ in range(4):
        if f is None:
            return False
        if f.f_code.co_name == "_process_worker":
            return "processes_management_lock.acquire" in linecache.getline(f.f_code.co_filename, f.f_lineno)
        f = f.f_back
    return False


def sim_sem_unlink(name):
    w = _w.W
    if w is None or name not in w.sems:
        raise FileNotFoundError(errno.ENOENT, "No such file or directory")
    del w.sems[name]
    w.sem_unlinked.append(name)


class TrackerStub:
    """Stands for loky.backend.resource_tracker in loky.backend.synchronize: records, never spawns."""

    def __init__(self):
        self.log = []

    def register(self, name, rtype):
        w = _w.W
        if w is not None:
            w.tracker_log.append(("REGISTER", name, rtype))

    def unregister(self, name, rtype):
        w = _w.W
        if w is not None:
            w.tracker_log.append(("UNREGISTER", name, rtype))

    def maybe_unlink(self, name, rtype):
        w = _w.W
        if w is not None:
            w.tracker_log.append(("MAYBE_UNLINK", name, rtype))


# =============================================================================
# threading shim
class SimLock:
    def __init__(self):
        self._w = W()
        self._held = False
        self._owner = None

    def acquire(self, blocking=True, timeout=-1):
        w = self._w
        w.check_alive()
        if not blocking:
            t = 0
        elif timeout is None or timeout < 0:
            t = None
        else:
            t = timeout
        ok = w.block_until(lambda: not self._held, t, what="lock.acquire")
        if not ok:
            return False
        self._held = True
        self._owner = w.cur
        return True

    def release(self):
        self._w.check_alive()
        if not self._held:
            raise RuntimeError("release unlocked lock")
        self._w.sched_point()       # preempted while still holding the lock
        self._held = False
        self._owner = None
        self._w.version += 1
        self._w.sched_point()       # a thread switch right after a release is what the GIL does most readily

    def locked(self):
        return self._held

    __enter__ = acquire

    def __exit__(self, *a):
        self.release()

    def _at_fork_reinit(self):
        self._held = False


class SimRLock:
    def __init__(self):
        self._w = W()
        self._owner = None
        self._count = 0

    def acquire(self, blocking=True, timeout=-1):
        w = self._w
        w.check_alive()
        me = w.cur
        if self._owner is me:
            self._count += 1
            return True
        if not blocking:
            t = 0
        elif timeout is None or timeout < 0:
            t = None
        else:
            t = timeout
        ok = w.block_until(lambda: self._owner is None, t, what="rlock.acquire")
        if not ok:
            return False
        self._owner = w.cur
        self._count = 1
        return True

    def release(self):
        self._w.check_alive()
        if self._owner is not self._w.cur:
            raise RuntimeError("cannot release un-acquired lock")
        self._count -= 1
        if self._count == 0:
            self._w.sched_point()   # preempted while still holding the lock
            self._owner = None
            self._w.version += 1
            self._w.sched_point()

    __enter__ = acquire

    def __exit__(self, *a):
        self.release()

    # Condition support
    def _release_save(self):
        st = (self._count, self._owner)
        self._count = 0
        self._owner = None
        self._w.version += 1
        return st

    def _acquire_restore(self, st):
        self._w.block_until(lambda: self._owner is None, None, what="rlock.reacquire")
        self._count, self._owner = st

    def _is_owned(self):
        return self._owner is self._w.cur


class SimCondition:
    def __init__(self, lock=None):
        self._w = W()
        if lock is None:
            lock = SimRLock()
        self._lock = lock
        self.acquire = lock.acquire
        self.release = lock.release
        self._waiters = []

    def __enter__(self):
        return self._lock.__enter__()

    def __exit__(self, *a):
        return self._lock.__exit__(*a)

    def _is_owned(self):
        lk = self._lock
        if isinstance(lk, SimRLock):
            return lk._is_owned()
        return lk._held and lk._owner is self._w.cur

    def wait(self, timeout=None):
        w = self._w
        w.check_alive()
        if not self._is_owned():
            raise RuntimeError("cannot wait on un-acquired lock")
        token = [False]
        self._waiters.append(token)
        lk = self._lock
        if isinstance(lk, SimRLock):
            st = lk._release_save()
        else:
            lk.release()
            st = None
        try:
            got = w.block_until(lambda: token[0], timeout, what="cond.wait")
            if not got:
                try:
                    self._waiters.remove(token)
                except ValueError:
                    pass
            return got
        finally:
            if st is not None:
                lk._acquire_restore(st)
            else:
                lk.acquire()

    def wait_for(self, predicate, timeout=None):
        endtime = None
        waittime = timeout
        result = predicate()
        while not result:
            if waittime is not None:
                if endtime is None:
                    endtime = self._w.now + waittime
                else:
                    waittime = endtime - self._w.now
                    if waittime <= 0:
                        break
            self.wait(waittime)
            result = predicate()
        return result

    def notify(self, n=1):
        self._w.check_alive()
        if not self._is_owned():
            raise RuntimeError("cannot notify on un-acquired lock")
        for _ in range(n):
            if not self._waiters:
                break
            tok = self._waiters.pop(0)
            tok[0] = True
            self._w.version += 1

    def notify_all(self):
        self.notify(len(self._waiters))

    notifyAll = notify_all


class SimEvent:
    def __init__(self):
        self._w = W()
        self._flag = False

    def is_set(self):
        return self._flag

    isSet = is_set

    def set(self):
        self._w.check_alive()
        self._flag = True
        self._w.version += 1

    def clear(self):
        self._flag = False

    def wait(self, timeout=None):
        w = self._w
        w.check_alive()
        return w.block_until(lambda: self._flag, timeout, what="event.wait")


class SimThread:
    """threading.Thread for code that instantiates it at call time (queue feeder)."""

    def __init__(self, group=None, target=None, name=None, args=(), kwargs=None, daemon=None):
        self._target = target
        self._args = args
        self._kwargs = kwargs or {}
        self.name = name or "Thread"
        self.daemon = bool(daemon)
        self._task = None
        self._w = W()

    def run(self):
        try:
            if self._target is not None:
                self._target(*self._args, **self._kwargs)
        finally:
            del self._target, self._args, self._kwargs

    def start(self):
        thread_start(self)

    def join(self, timeout=None):
        return thread_join(self, timeout)

    def is_alive(self):
        return thread_is_alive(self)

    @property
    def ident(self):
        return self._task.tid if self._task else None


def thread_start(self):
    w = W()
    w.sched_point()
    if getattr(self, "_task", None) is not None:
        raise RuntimeError("threads can only be started once")
    t = w.spawn(w.cur.proc, self.name, self.run, thread_obj=self)
    t.daemon = bool(self.daemon)
    self._task = t
    w.ev("thread_start", name=self.name, pid=w.cur.proc.pid)


def thread_join(self, timeout=None):
    w = W()
    t = getattr(self, "_task", None)
    if t is None:
        raise RuntimeError("cannot join thread before it is started")
    if t is w.cur:
        raise RuntimeError("cannot join current thread")
    w.block_until(lambda: t.state in ("done", "dead"), timeout, what=f"join({t.name})")


def thread_is_alive(self):
    t = getattr(self, "_task", None)
    return t is not None and t.state not in ("done", "dead")


class _CurThread:
    def __init__(self, task):
        self.name = task.name if task else "MainThread"
        self.ident = task.tid if task else 0
        self.daemon = True


class ThreadingShim:
    """Module-shaped object substituted for `threading` in the modules listed in sim.patches."""
    Lock = staticmethod(lambda: SimLock() if _w.W is not None else _rt.Lock())
    RLock = staticmethod(lambda: SimRLock() if _w.W is not None else _rt.RLock())
    Semaphore = _rt.Semaphore
    TIMEOUT_MAX = _rt.TIMEOUT_MAX

    @staticmethod
    def Condition(lock=None):
        if _w.W is None:
            return _rt.Condition(lock)
        return SimCondition(lock)

    @staticmethod
    def Event():
        if _w.W is None:
            return _rt.Event()
        return SimEvent()

    @staticmethod
    def Thread(*a, **k):
        if _w.W is None:
            return _rt.Thread(*a, **k)
        return SimThread(*a, **k)

    @staticmethod
    def current_thread():
        w = _w.W
        if w is None:
            return _rt.current_thread()
        return _CurThread(w.cur)

    @staticmethod
    def get_ident():
        w = _w.W
        return w.cur.tid if w is not None and w.cur else _rt.get_ident()

    @staticmethod
    def main_thread():
        return _rt.main_thread()

    @staticmethod
    def _register_atexit(func, *arg, **kwargs):
        w = W()
        w.cur.proc.atexit.append((func, arg, kwargs))
        return func

    def __getattr__(self, name):
        return getattr(_rt, name)


class TimeShim:
    """Module-shaped `time` (logical clock)."""

    @staticmethod
    def time():
        w = _w.W
        if w is None:
            return _realtime.time()
        w.sched_point()
        return 1.7e9 + w.now

    @staticmethod
    def monotonic():
        w = _w.W
        if w is None:
            return _realtime.monotonic()
        w.sched_point()
        return w.now

    @staticmethod
    def sleep(d):
        w = _w.W
        if w is None:
            return _realtime.sleep(d)
        w.sleep(d)

    def __getattr__(self, name):
        return getattr(_realtime, name)


TIME = TimeShim()
THREADING = ThreadingShim()
