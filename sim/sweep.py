"""Systematic single-preemption sweep: for generated *small* programs, every scheduling decision d of the default
run is re-run with each alternative action c forced at d (preemption bound 1, exhaustive per program)."""
import importlib
import json
import os

from vlib import common, findings, findings_sim
from vlib.common import Acc, HarnessError


def gen_programs(prop, seed, n, tier, outfile, profile="sweep_profile"):
    """Draw n distinct small programs with Hypothesis, run each once under the default schedule, keep (case, decisions)."""
    import hypothesis
    from hypothesis import given, settings, HealthCheck, Phase
    from sim import patches, program, strategies

    mod = importlib.import_module(f"props.{prop.lower()}")
    patches.install()
    P = getattr(mod, profile)(tier)
    out = []
    seen = set()
    acc = Acc()
    run_case = getattr(mod, "run_case", program.run_case)

    @hypothesis.seed(seed)
    @settings(max_examples=n * 4, database=None, deadline=None, suppress_health_check=list(HealthCheck), phases=[Phase.generate])
    @given(mod.case_strategy(P) if hasattr(mod, "case_strategy") else strategies.cases(P))
    def t(case):
        if len(out) >= n:
            return
        if hasattr(mod, "adjust"):
            case = mod.adjust(case)
        case["schedule"] = {"kind": "pb", "preempt": []}
        case["_exclusions"] = findings_sim.active_exclusions()
        h = common.case_hash({k: v for k, v in case.items() if k != "schedule"})
        if h in seen:
            return
        seen.add(h)
        ds = {}
        for mode, sched in MODES.items():
            k = dict(case)
            k["schedule"] = dict(sched)
            H = run_case(k, hooks=getattr(mod, "hooks", None))
            if H.verdict != "quiescent":
                return
            if H.decisions < 5:
                return
            if H.decisions > 900:
                continue          # (this mode's baseline is too long to sweep; the other modes still are)
            ds[mode] = H.decisions
        if not ds:
            return
        out.append({"case": case, "decisions": ds})

    # seed corpus first: hand-written small programs every sweep of this property covers
    import copy
    from sim import sweep_corpus
    named = [(nm, sweep_corpus.CORPUS[nm]) for nm in sweep_corpus.FOR.get(prop, [])] if not hasattr(mod, "case_strategy") else []
    named += [(f"own{i}", c) for i, c in enumerate(getattr(mod, "SWEEP_CORPUS", []))]
    if named:
        for name, proto in named:
            case = copy.deepcopy(proto)
            if hasattr(mod, "adjust"):
                case = mod.adjust(case)
            case["_exclusions"] = findings_sim.active_exclusions()
            case["_corpus"] = name
            ds = {}
            for mode, sched in MODES.items():
                k = dict(case)
                k["schedule"] = dict(sched)
                H = run_case(k, hooks=getattr(mod, "hooks", None))
                if H.verdict != "quiescent":
                    ds = None
                    break
                if H.decisions > 900:
                    continue      # (this mode's baseline is too long to sweep; the other modes still are)
                ds[mode] = H.decisions
            if ds:
                out.append({"case": case, "decisions": ds})
                acc.count("sweep_corpus_programs")
    n += len(out)
    t()
    with open(outfile, "w") as fh:
        json.dump(out, fh)
    acc.count("sweep_programs", len(out))
    return acc


# pb: force alternative action c at decision d; pctA/pctB: at decision d the running task drops below every other
# priority (it only resumes once everything else is blocked) - base priorities favour low / high task ids respectively
MODES = {"pb": {"kind": "pb", "preempt": []},
         "burst": {"kind": "pb", "preempt": []},        # at decision d every eligible timer fires, one after the other
         "pctA": {"kind": "pct", "prios": [5], "changes": []},
         "pctB": {"kind": "pct", "prios": [1, 3, 5, 7, 9, 11, 13, 15, 17, 19, 21, 23], "changes": []}}


def sweep_chunk(prop, case, d_lo, d_hi, cs, mode="pb"):
    from sim import patches, program
    mod = importlib.import_module(f"props.{prop.lower()}")
    patches.install()
    acc = Acc()
    open_f = findings.open_for(prop)
    run_case = getattr(mod, "run_case", program.run_case)
    findings_sim.FORCED = case.get("_exclusions")
    for d in range(d_lo, d_hi):
        for c in (cs if mode == "pb" else [0]):
            k = dict(case)
            if mode == "pb":
                k["schedule"] = {"kind": "pb", "preempt": [[d, c]]}
            elif mode == "burst":
                k["schedule"] = {"kind": "pb", "preempt": [[d, -50]]}
            else:
                k["schedule"] = dict(MODES[mode], changes=[d])
            H = run_case(k, hooks=getattr(mod, "hooks", None))
            if H.verdict == "harness":
                raise HarnessError(f"SIM harness verdict in sweep: {H.verdict_detail}")
            acc.count("sweep_verdict:" + str(H.verdict))
            if H.verdict in ("inconclusive", "excluded"):
                acc.inconclusive += 1
                acc.evaluations += 1
                continue
            summ = {"sweep": True, "config": k.get("config"), "program": k.get("program", k.get("actors")), "faults": k.get("faults"),
                    "mode": mode, "preempt": [d, c]}
            acc.case(summ, H.preemptions >= 1)
            for v in mod.oracle(H):
                v["predicates"] = mod.predicates(H, v) if hasattr(mod, "predicates") else []
                fid = findings.match(prop, v, open_f)
                if fid is not None:
                    acc.count(f"known_hit:{fid}")
                    continue
                acc.violations.append(dict(v, case=k))
                return acc
    return acc


def run_sweep(prop, tier, seed, n_programs, cs=(1, 2, 3), chunk=60):
    from vlib.shards import run_jobs
    os.makedirs(common.WORK, exist_ok=True)
    pf = os.path.join(common.WORK, f"sweep-{prop}-{os.getpid()}.json")
    acc, _ = run_jobs([{"module": "sim.sweep", "func": "gen_programs",
                        "kwargs": {"prop": prop, "seed": common.derive_seed(seed, prop, "sweep"), "n": n_programs, "tier": tier,
                                   "outfile": pf}}], nproc=1, tag=f"sweepgen-{prop}")
    try:
        with open(pf) as fh:
            progs = json.load(fh)
    finally:
        try:
            os.unlink(pf)
        except OSError:
            pass
    jobs = []
    for p in progs:
        for mode, D in p["decisions"].items():
            ch = chunk if mode == "pb" else chunk * 3
            for lo in range(0, D, ch):
                jobs.append({"module": "sim.sweep", "func": "sweep_chunk",
                             "kwargs": {"prop": prop, "case": p["case"], "d_lo": lo, "d_hi": min(D, lo + ch), "cs": list(cs),
                                        "mode": mode}})
    a2, not_run = run_jobs(jobs, tag=f"sweep-{prop}", timeout_s=1500 if tier == "quick" else 7200)
    acc.merge(a2, sample_cap=8)
    acc.count("sweep_decision_points", sum(sum(p["decisions"].values()) for p in progs))
    if not_run:
        acc.notes.append(f"sweep: {not_run} chunk processes hit the wall-clock cap")
    # keep one violation per program at most (the first found)
    return acc
