"""Hypothesis strategies producing SIM cases (plain JSON-able dicts), parameterised by a profile."""
from hypothesis import strategies as st

CAUSES = [-9, -11, -15, 1, 3, 0, 255]
EXCS = [("ValueError", ["v"]), ("KeyError", ["k"]), ("SystemExit", [2]), ("KeyboardInterrupt", []),
        ("CustomErr", ["c", 1]), ("ZeroDivisionError", ["z"]), ("BaseException", ["b"])]

DEFAULT = dict(
    executors=["plain", "plain", "reusable"],
    max_workers=4,
    timeouts=[None, None, 10, 0.5, 1e-3, 0],
    initializers=["none", "none", "none", "ok"],
    max_threads=3,
    max_ops=8,
    kinds={"echo": 10, "raise": 3, "gate": 2, "big": 2, "bigarg": 1, "unp_arg": 1, "struct_arg": 1,
           "unp_res": 1, "unl_res": 1, "unl_arg": 1, "die": 1},
    ops={"submit": 10, "result": 3, "cancel": 2, "map": 1, "callback": 1, "sleep": 1, "get": 0, "wait_all": 1},
    endings=["none", "wait_all", "shutdown_wait", "shutdown_nowait", "wait_shutdown", "del", "exit", "kill"],
    max_faults=2,
    fault_weights=[11, 6, 3],     # P(0), P(1), P(2) faults
    fault_at_max=140,
    mem=False,
    get_args=None,
    big_sizes=[70000, 150000, 300000],
    schedule_kinds=["pb", "pb", "rw", "default"],
)


def profile(**over):
    p = dict(DEFAULT)
    p.update(over)
    return p


def _weighted(draw, table):
    items = [k for k, wgt in table.items() for _ in range(wgt)]
    return draw(st.sampled_from(items))


@st.composite
def schedules(draw, P):
    kind = draw(st.sampled_from(P["schedule_kinds"]))
    if kind == "default":
        return {"kind": "pb", "preempt": []}
    if kind == "pb":
        k = draw(st.integers(0, 4))
        pts = draw(st.lists(st.tuples(st.integers(0, P.get("pb_horizon", 500)), st.integers(1, 6)),
                            min_size=k, max_size=k))
        return {"kind": "pb", "preempt": [list(x) for x in pts]}
    ch = draw(st.lists(st.sampled_from([0, 0, 0, 0, 1, 1, 2, 3, 4, 5]), min_size=0, max_size=P.get("rw_len", 250)))
    return {"kind": "rw", "choices": ch}


@st.composite
def fault_lists(draw, P, cfg):
    wts = P["fault_weights"][: P["max_faults"] + 1]
    n = draw(st.sampled_from([i for i, wgt in enumerate(wts) for _ in range(wgt)]))
    out = []
    for _ in range(n):
        out.append({
            "worker": draw(st.integers(0, cfg["max_workers"] + 1)),
            "at": draw(st.one_of(st.integers(1, 12), st.integers(1, P["fault_at_max"]))),
            "cause": draw(st.sampled_from(P.get("causes", CAUSES))),
        })
    return out


def _task_spec(draw, P, token):
    kind = _weighted(draw, P["kinds"])
    spec = {"kind": kind, "token": token}
    if kind == "raise":
        e = draw(st.sampled_from(P.get("excs", EXCS)))
        spec["exc"], spec["args"] = e[0], list(e[1])
    elif kind in ("big", "bigarg"):
        spec["n"] = draw(st.sampled_from(P["big_sizes"]))
    elif kind == "die":
        spec["cause"] = draw(st.sampled_from(P.get("causes", CAUSES)))
    elif kind == "gate":
        spec["g"] = 0
    return spec


def _get_args(draw, P, cfg):
    g = P.get("get_args") or {}
    a = {
        "max_workers": draw(st.integers(1, P["max_workers"])),
        "timeout": draw(st.sampled_from(g.get("timeouts", [cfg.get("timeout", 10)]))),
        "reuse": draw(st.sampled_from(g.get("reuse", ["auto"]))),
        "kill_workers": draw(st.sampled_from(g.get("kill_workers", [False]))),
    }
    if g.get("initializers"):
        a["initializer"] = draw(st.sampled_from(g["initializers"]))
    return a


@st.composite
def cases(draw, P):
    cfg = {
        "executor": draw(st.sampled_from(P["executors"])),
        "max_workers": draw(st.integers(1, P["max_workers"])),
        "timeout": draw(st.sampled_from(P["timeouts"])),
        "cpu_count": draw(st.integers(1, 2)),
        "initializer": draw(st.sampled_from(P["initializers"])),
    }
    if cfg["executor"] == "reusable" and cfg["initializer"] not in ("none", "ok"):
        cfg["initializer"] = "none"
    if P["mem"] and draw(st.booleans()):
        cfg["mem"] = draw(st.lists(st.sampled_from([100, 100, int(4e8), int(9e8)]), min_size=2, max_size=6))
    nthreads = draw(st.integers(1, P["max_threads"]))
    program = []
    uses_gate = False
    for i in range(nthreads):
        ops = []
        mine = []
        nops = draw(st.integers(1, P["max_ops"]))
        for k in range(nops):
            name = _weighted(draw, P["ops"])
            if name == "submit":
                tok = i * 100 + len(mine)
                spec = _task_spec(draw, P, tok)
                uses_gate = uses_gate or spec["kind"] == "gate"
                mine.append(tok)
                ops.append(["submit", spec])
            elif name in ("result", "cancel", "callback"):
                if not mine:
                    continue
                tok = draw(st.sampled_from(mine))
                if name == "result":
                    ops.append(["result", tok])
                elif name == "cancel":
                    ops.append(["cancel", tok])
                else:
                    ops.append(["callback", tok, draw(st.sampled_from(["raise", "raise_sysexit", "submit"]))])
            elif name == "map":
                nit = draw(st.integers(1, 3))
                lens = draw(st.lists(st.integers(0, 7), min_size=nit, max_size=nit))
                ops.append(["map", {"lens": lens, "chunksize": draw(st.integers(1, 5))}])
            elif name == "sleep":
                ops.append(["sleep", draw(st.sampled_from([1e-3, 0.3, 2.0, 12.0]))])
            elif name == "wait_all":
                ops.append(["wait_all"])
            elif name == "get":
                if cfg["executor"] == "reusable":
                    ops.append(["get", _get_args(draw, P, cfg)])
        end = draw(st.sampled_from(P["endings"]))
        if end == "wait_all":
            ops.append(["wait_all"])
        elif end == "shutdown_wait":
            ops.append(["shutdown", True, False])
        elif end == "shutdown_nowait":
            ops.append(["shutdown", False, False])
        elif end == "wait_shutdown":
            ops += [["wait_all"], ["shutdown", True, False]]
        elif end == "shutdown_then_submit":
            ops += [["shutdown", True, False], ["submit", {"kind": "echo", "token": i * 100 + len(mine)}]]
        elif end == "kill":
            ops.append(["shutdown", True, True])
        elif end == "del" and cfg["executor"] == "plain":
            ops.append(["del"])
        elif end == "exit" and i == 0:
            ops.append(["exit"])
        if not ops:
            ops.append(["sleep", 1e-3])
        program.append(ops)
    if uses_gate and not P.get("gates_never_open"):
        program.append([["sleep", draw(st.sampled_from(P.get("gate_delays", [1e-3, 0.4, 3.0, 20.0])))], ["open_gate", 0]])
    if P.get("probe"):
        program.append([["hold"], ["sleep", 5000.0], ["probe", P["probe"]]])
    case = {"config": cfg, "program": program, "schedule": draw(schedules(P)),
            "faults": draw(fault_lists(P, cfg)) if P["max_faults"] else []}
    return case
