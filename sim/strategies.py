"""Hypothesis strategies producing SIM cases (plain JSON-able dicts), parameterised by a profile."""
from hypothesis import strategies as st

CAUSES = [-9, -11, -15, 1, 3, 0, 255, -37, -6]      # incl. a real-time signal without a name in signal.Signals
EXCS = [("ValueError", ["v"]), ("KeyError", ["k"]), ("SystemExit", [2]), ("KeyboardInterrupt", []),
        ("CustomErr", ["c", 1]), ("ZeroDivisionError", ["z"]), ("BaseException", ["b"])]

DEFAULT = dict(
    executors=["plain", "plain", "reusable"],
    max_workers=4,
    timeouts=[None, None, 10, 0.5, 1e-3, 0],
    initializers=["none", "none", "none", "ok"],
    max_threads=3,
    max_ops=8,
    kinds={"echo": 10, "raise": 3, "gate": 2, "big": 2, "bigarg": 1, "unp_arg": 1, "struct_arg": 1,
           "unp_res": 1, "unl_res": 1, "unl_arg": 1, "die": 1},
    ops={"submit": 10, "result": 3, "cancel": 2, "map": 1, "callback": 1, "sleep": 1, "get": 0, "wait_all": 1},
    endings=["none", "wait_all", "shutdown_wait", "shutdown_nowait", "wait_shutdown", "del", "exit", "kill"],
    max_faults=2,
    fault_weights=[11, 6, 3],     # P(0), P(1), P(2) faults
    fault_at_max=140,
    mem=False,
    get_args=None,
    big_sizes=[70000, 150000, 300000],
    schedule_kinds=["pb", "pb", "rw", "default", "pct", "pct"],
)


def profile(**over):
    p = dict(DEFAULT)
    p.update(over)
    return p


def _weighted(draw, table):
    items = [k for k, wgt in table.items() for _ in range(wgt)]
    return draw(st.sampled_from(items))


@st.composite
def schedules(draw, P):
    kind = draw(st.sampled_from(P["schedule_kinds"]))
    if kind == "default":
        return {"kind": "pb", "preempt": []}
    if kind == "pct":
        prios = draw(st.lists(st.integers(0, 9), min_size=3, max_size=8))
        k = draw(st.integers(0, 3))
        changes = draw(st.lists(st.integers(0, P.get("pct_horizon", 400)), min_size=k, max_size=k))
        return {"kind": "pct", "prios": prios, "changes": sorted(changes)}
    if kind == "te":
        # timer-eager: at k drawn decisions an eligible timer (idle timeout, polling sleep) fires although tasks are runnable
        k = draw(st.integers(1, P.get("te_max", 6)))
        pts = draw(st.lists(st.tuples(st.integers(0, P.get("pb_horizon", 500)), st.integers(-3, -1)), min_size=k, max_size=k))
        k2 = draw(st.integers(0, 2))
        pts += draw(st.lists(st.tuples(st.integers(0, P.get("pb_horizon", 500)), st.integers(1, 6)), min_size=k2, max_size=k2))
        return {"kind": "te", "preempt": [list(x) for x in pts]}
    if kind == "pb":
        k = draw(st.integers(0, 4))
        pts = draw(st.lists(st.tuples(st.integers(0, P.get("pb_horizon", 500)), st.integers(1, 6)),
                            min_size=k, max_size=k))
        return {"kind": "pb", "preempt": [list(x) for x in pts]}
    ch = draw(st.lists(st.sampled_from([0, 0, 0, 0, 1, 1, 2, 3, 4, 5]), min_size=P.get("rw_min", 0), max_size=P.get("rw_len", 250)))
    if P.get("rw_cycle"):
        return {"kind": "rw", "choices": ch, "cycle": P["rw_cycle"]}
    return {"kind": "rw", "choices": ch}


@st.composite
def fault_lists(draw, P, cfg):
    wts = P["fault_weights"][: P["max_faults"] + 1]
    n = draw(st.sampled_from([i for i, wgt in enumerate(wts) for _ in range(wgt)]))
    out = []
    for _ in range(n):
        out.append({
            "worker": draw(st.integers(0, cfg["max_workers"] + 1)),
            "at": draw(st.one_of(st.integers(1, 12), st.integers(1, P["fault_at_max"]))),
            "cause": draw(st.sampled_from(P.get("causes", CAUSES))),
        })
    return out


def _task_spec(draw, P, token):
    kind = _weighted(draw, P["kinds"])
    spec = {"kind": kind, "token": token}
    if kind == "raise":
        e = draw(st.sampled_from(P.get("excs", EXCS)))
        spec["exc"], spec["args"] = e[0], list(e[1])
    elif kind in ("big", "bigarg"):
        spec["n"] = draw(st.sampled_from(P["big_sizes"]))
    elif kind == "die":
        spec["cause"] = draw(st.sampled_from(P.get("causes", CAUSES)))
    elif kind == "gate":
        spec["g"] = 0
    return spec


def _get_args(draw, P, cfg):
    g = P.get("get_args") or {}
    a = {
        "max_workers": draw(st.integers(1, P["max_workers"])),
        "timeout": draw(st.sampled_from(g.get("timeouts", [cfg.get("timeout", 10)]))),
        "reuse": draw(st.sampled_from(g.get("reuse", ["auto"]))),
        "kill_workers": draw(st.sampled_from(g.get("kill_workers", [False]))),
    }
    if g.get("initializers"):
        a["initializer"] = draw(st.sampled_from(g["initializers"]))
    elif cfg.get("initializer") == "ok":
        a["initializer"] = "ok"
    return a


@st.composite
def cases(draw, P):
    shape = P.get("shape")
    if shape == "resize":
        return draw(resize_cases(P))
    if shape == "delivery":
        return draw(delivery_cases(P))
    if shape == "race_get":
        return draw(race_get_cases(P))
    if shape == "history_get":
        return draw(history_get_cases(P))
    cfg = {
        "executor": draw(st.sampled_from(P["executors"])),
        "max_workers": draw(st.integers(1, P["max_workers"])),
        "timeout": draw(st.sampled_from(P["timeouts"])),
        "cpu_count": draw(st.integers(1, 2)),
        "initializer": draw(st.sampled_from(P["initializers"])),
    }
    if cfg["executor"] == "reusable" and cfg["initializer"] not in ("none", "ok"):
        cfg["initializer"] = "none"
    if P["mem"] and draw(st.booleans()):
        cfg["mem"] = draw(st.lists(st.sampled_from([100, 100, int(4e8), int(9e8)]), min_size=2, max_size=6))
    nthreads = draw(st.integers(1, P["max_threads"]))
    program = []
    uses_gate = False
    for i in range(nthreads):
        ops = []
        mine = []
        nops = draw(st.integers(1, P["max_ops"]))
        for k in range(nops):
            name = _weighted(draw, P["ops"])
            if name == "submit":
                tok = i * 100 + len(mine)
                spec = _task_spec(draw, P, tok)
                uses_gate = uses_gate or spec["kind"] == "gate"
                mine.append(tok)
                ops.append(["submit", spec])
            elif name in ("result", "cancel", "callback"):
                if not mine:
                    continue
                tok = draw(st.sampled_from(mine))
                if name == "result":
                    ops.append(["result", tok])
                elif name == "cancel":
                    ops.append(["cancel", tok])
                else:
                    ops.append(["callback", tok, draw(st.sampled_from(["raise", "raise_sysexit", "submit"]))])
            elif name == "map":
                nit = draw(st.integers(1, 3))
                lens = draw(st.lists(st.integers(0, 7), min_size=nit, max_size=nit))
                ops.append(["map", {"lens": lens, "chunksize": draw(st.integers(1, 5))}])
            elif name == "sleep":
                ops.append(["sleep", draw(st.sampled_from([1e-3, 0.3, 2.0, 12.0]))])
            elif name == "wait_all":
                ops.append(["wait_all"])
            elif name == "get":
                if cfg["executor"] == "reusable":
                    ops.append(["get", _get_args(draw, P, cfg)])
        end = draw(st.sampled_from(P["endings"]))
        if end == "wait_all":
            ops.append(["wait_all"])
        elif end == "shutdown_wait":
            ops.append(["shutdown", True, False])
        elif end == "shutdown_nowait":
            ops.append(["shutdown", False, False])
        elif end == "wait_shutdown":
            ops += [["wait_all"], ["shutdown", True, False]]
        elif end == "shutdown_then_submit":
            ops += [["shutdown", True, False], ["submit", {"kind": "echo", "token": i * 100 + len(mine)}]]
        elif end == "kill":
            ops.append(["shutdown", True, True])
        elif end == "kill_get":
            ops.append(["kill_get"])
        elif end == "del" and cfg["executor"] == "plain":
            ops.append(["del"])
        elif end == "exit" and i == 0:
            ops.append(["exit"])
        if not ops:
            ops.append(["sleep", 1e-3])
        program.append(ops)
    if uses_gate and not P.get("gates_never_open"):
        program.append([["sleep", draw(st.sampled_from(P.get("gate_delays", [1e-3, 0.4, 3.0, 20.0])))], ["open_gate", 0]])
    if P["max_faults"] and draw(st.integers(0, 5)) == 0:
        # an external killer: kill -9 / OOM killer hitting the k-th spawned worker at some instant, wherever it is (also
        # blocked idle on the call queue, where no fault placed at one of its own scheduling points can fall)
        program.append([["sleep", draw(st.sampled_from([1e-3, 0.3, 2.0, 12.0]))],
                        ["kill", draw(st.integers(0, cfg["max_workers"] + 1)), draw(st.sampled_from(P.get("causes", CAUSES)))]])
    if P.get("probe"):
        program.append([["hold"], ["sleep", 5000.0], ["probe", P["probe"]]])
    case = {"config": cfg, "program": program, "schedule": draw(schedules(P)),
            "faults": draw(fault_lists(P, cfg)) if P["max_faults"] else []}
    return case


# ----------------------------------------------------------------------------- structured shapes
def _simple_task(draw, P, tok, kinds=None):
    kinds = kinds or P.get("resize_kinds", {"echo": 6, "gate": 2, "big": 1, "raise": 1})
    kind = _weighted(draw, kinds)
    spec = {"kind": kind, "token": tok}
    if kind == "raise":
        e = draw(st.sampled_from(EXCS))
        spec["exc"], spec["args"] = e[0], list(e[1])
    elif kind in ("big", "bigarg"):
        spec["n"] = draw(st.sampled_from(P["big_sizes"]))
    elif kind == "gate":
        spec["g"] = 0
    elif kind == "die":
        spec["cause"] = draw(st.sampled_from(CAUSES))
    return spec


@st.composite
def resize_cases(draw, P):
    """C10: reusable executor, get(old) -> submit k tasks -> get(new) [-> more work] ..., 1-3 resizes."""
    timeout = draw(st.sampled_from(P["timeouts"]))
    cfg = {"executor": "reusable", "max_workers": draw(st.integers(1, P["max_workers"])), "timeout": timeout,
           "cpu_count": draw(st.integers(1, 2)), "initializer": draw(st.sampled_from(P["initializers"]))}
    ops = [["get", {"max_workers": cfg["max_workers"], "timeout": timeout, "reuse": "auto", "kill_workers": False,
                    "initializer": cfg["initializer"]}]]
    tok = 0
    uses_gate = False
    nres = draw(st.integers(1, P.get("max_resizes", 3)))
    for r in range(nres):
        k = draw(st.integers(0, P.get("max_inflight", 6)))
        for _ in range(k):
            spec = _simple_task(draw, P, tok)
            uses_gate = uses_gate or spec["kind"] == "gate"
            ops.append(["submit", spec])
            tok += 1
        if draw(st.integers(0, 5)) == 0:
            ops.append(["sleep", draw(st.sampled_from([1e-3, 0.3, 2.0, 12.0]))])
        if draw(st.integers(0, 3)) == 0:
            ops.append(["wait_all"])
        new = draw(st.integers(1, P["max_workers"]))
        if k and draw(st.integers(0, 5)) == 0:
            # a request made with warnings turned into errors: with jobs still running it is aborted by the "running jobs"
            # UserWarning before anything was done; the same request is then repeated normally
            ops.append(["get", {"max_workers": new, "timeout": timeout, "reuse": "auto", "kill_workers": False,
                                "initializer": cfg["initializer"], "warn_error": True}])
            if draw(st.booleans()):
                ops.append(["wait_all"])
        ops.append(["get", {"max_workers": new, "timeout": timeout, "reuse": draw(st.sampled_from(["auto", "auto", True])),
                            "kill_workers": False, "initializer": cfg["initializer"]}])
    k = draw(st.integers(0, 3))
    for _ in range(k):
        ops.append(["submit", _simple_task(draw, P, tok, {"echo": 1})])
        tok += 1
    ops.append(["wait_all"])
    program = [ops]
    if draw(st.integers(0, 3)) == 0:
        # a second thread submitting on the same singleton while the first resizes
        o2 = [["hold"]]
        for j in range(draw(st.integers(1, 4))):
            o2.append(["submit", _simple_task(draw, P, 100 + j, {"echo": 4, "big": 1})])
        o2.append(["wait_all"])
        program.append(o2)
    if uses_gate:
        program.append([["sleep", draw(st.sampled_from([1e-3, 0.4, 3.0, 20.0]))], ["open_gate", 0]])
    if P["max_faults"] and draw(st.integers(0, 4)) == 0:
        # a worker (typically an idle one of the old pool) is killed from outside at some instant of the history
        program.append([["sleep", draw(st.sampled_from([1e-3, 1e-3, 0.3, 2.0]))],
                        ["kill", draw(st.integers(0, P["max_workers"] + 1)), draw(st.sampled_from([-9, -11]))]])
    return {"config": cfg, "program": program, "schedule": draw(schedules(P)),
            "faults": draw(fault_lists(P, dict(cfg, max_workers=P["max_workers"]))) if P["max_faults"] else []}


@st.composite
def delivery_cases(draw, P):
    """C08 delivery: one submitting thread; earlier light work, idle gaps and resizes; then >= max_workers gate
    tasks; a second thread opens the gate long after everything else has settled."""
    kind = draw(st.sampled_from(P["executors"]))
    timeout = draw(st.sampled_from(P["timeouts"]))
    mw = draw(st.integers(1, P["max_workers"]))
    cfg = {"executor": kind, "max_workers": mw, "timeout": timeout, "cpu_count": draw(st.integers(1, 2)),
           "initializer": "none"}
    ops = []
    tok = 0
    cur = mw
    if kind == "reusable":
        ops.append(["get", {"max_workers": mw, "timeout": timeout, "reuse": "auto", "kill_workers": False}])
    early_gate = False
    for _ in range(draw(st.integers(0, 4))):
        what = draw(st.sampled_from(["echo", "echo", "sleep", "sleep", "resize", "wait", "gate"]))
        if what == "gate":
            # a long task keeps one worker busy while the others may idle out: the later submits must top the pool up
            ops.append(["submit", {"kind": "gate", "token": tok, "g": 0}])
            tok += 1
            early_gate = True
        elif what in ("wait", "resize") and early_gate:
            continue
        elif what == "echo":
            for _ in range(draw(st.integers(1, 4))):
                ops.append(["submit", {"kind": "echo", "token": tok}])
                tok += 1
        elif what == "sleep":
            ops.append(["sleep", draw(st.sampled_from([1e-3, 0.3, 2.0, 12.0, 40.0]))])
        elif what == "wait":
            ops.append(["wait_all"])
        elif kind == "reusable":
            cur = draw(st.integers(1, P["max_workers"]))
            ops.append(["get", {"max_workers": cur, "timeout": timeout, "reuse": "auto", "kill_workers": False}])
    ngate = cur + draw(st.integers(0, 3))
    for _ in range(ngate):
        ops.append(["submit", {"kind": "gate", "token": tok, "g": 0}])
        tok += 1
        if draw(st.integers(0, 6)) == 0:
            ops.append(["submit", {"kind": "echo", "token": tok}])
            tok += 1
    ops.append(["wait_all"])
    program = [ops, [["sleep", 5000.0], ["open_gate", 0]]]
    return {"config": cfg, "program": program, "schedule": draw(schedules(P)), "faults": [], "_final_max_workers": cur}


@st.composite
def race_get_cases(draw, P):
    """C09 races: 2-3 threads call get(max_workers=m_i) (same other arguments) then submit and wait."""
    timeout = draw(st.sampled_from(P["timeouts"]))
    cfg = {"executor": "reusable", "max_workers": draw(st.integers(1, P["max_workers"])), "timeout": timeout,
           "cpu_count": draw(st.integers(1, 2)), "initializer": "none"}
    program = []
    for i in range(draw(st.integers(2, 3))):
        ops = []
        tok = 100 * i
        for _ in range(draw(st.integers(1, 3))):
            m = draw(st.integers(1, P["max_workers"])) if not P.get("same_mw") else cfg["max_workers"]
            ops.append(["get", {"max_workers": m, "timeout": timeout, "reuse": draw(st.sampled_from(["auto", True])),
                                "kill_workers": False}])
            for _ in range(draw(st.integers(1, 3))):
                ops.append(["submit", _simple_task(draw, P, tok, {"echo": 6, "big": 1, "raise": 1})])
                tok += 1
            if draw(st.booleans()):
                ops.append(["wait_all"])
        ops.append(["wait_all"])
        program.append(ops)
    return {"config": cfg, "program": program, "schedule": draw(schedules(P)), "faults": []}


@st.composite
def history_get_cases(draw, P):
    """C09 sequential histories: one thread; get(args) / submit / crash / shutdown / idle, any order."""
    timeout0 = draw(st.sampled_from(P["timeouts"]))
    cfg = {"executor": "reusable", "max_workers": draw(st.integers(1, P["max_workers"])), "timeout": timeout0,
           "cpu_count": draw(st.integers(1, 2)), "initializer": "none"}
    ops = []
    tok = 0
    uses_gate = False

    def get_op():
        return ["get", {"max_workers": draw(st.integers(1, P["max_workers"])),
                        "timeout": draw(st.sampled_from([timeout0, timeout0, timeout0] + list(P["timeouts"]))),
                        "reuse": draw(st.sampled_from(["auto", "auto", "auto", True, False])),
                        "kill_workers": draw(st.sampled_from([False, False, True])),
                        "initializer": draw(st.sampled_from(["none", "none", "none", "ok"]))}]

    ops.append(get_op())
    for _ in range(draw(st.integers(2, P.get("max_ops", 9)))):
        what = draw(st.sampled_from(["get", "get", "get", "submit", "submit", "crash", "shutdown", "shutdown_kill", "shutdown_nowait",
                                     "idle", "wait"] + (["cbget"] if P.get("cbget") and not uses_gate else [])))
        if what == "get":
            ops.append(get_op())
        elif what == "submit":
            ops.append(["submit", {"kind": "echo", "token": tok}])
            tok += 1
        elif what == "crash":
            ops.append(["submit", {"kind": "die", "token": tok, "cause": draw(st.sampled_from([-9, -11, 3]))}])
            ops.append(["result", tok])
            tok += 1
        elif what == "shutdown":
            ops.append(["shutdown", True, False])
        elif what == "shutdown_kill":
            ops.append(["shutdown", True, True])
        elif what == "shutdown_nowait":
            # a still-running long task, then a shutdown that does not wait: the next factory call must wait for it
            if not uses_gate:
                ops.append(["submit", {"kind": "gate", "token": tok, "g": 0}])
                uses_gate = True
                tok += 1
            ops.append(["shutdown", False, False])
        elif what == "idle":
            ops.append(["sleep", draw(st.sampled_from([0.3, 2.0, 12.0, 40.0]))])
        elif what == "cbget":
            # a long task whose done-callback calls the factory with changed arguments from the manager thread
            ops.append(["submit", {"kind": "gate", "token": tok, "g": 0}])
            ops.append(["callback", tok, "get_changed"])
            ops.append(["wait_cb", tok])
            uses_gate = True
            tok += 1
        else:
            ops.append(["wait_all"])
    faults = []
    if P.get("idle_death") and draw(st.integers(0, 2)) == 0:
        if draw(st.booleans()):
            faults = [{"worker": draw(st.integers(0, P["max_workers"] + 2)),
                       "at": draw(st.one_of(st.integers(1, 12), st.integers(1, 12), st.integers(20, 120))),
                       "cause": draw(st.sampled_from([-9, -11, 3]))}]
        else:
            # killed from outside while it sits idle (any worker spawned so far, the most recent ones more often)
            if draw(st.booleans()):
                ops.append(["sleep", draw(st.sampled_from([1e-3, 0.3, 2.0]))])
            ops.append(["kill", draw(st.integers(0, P["max_workers"] + 2)), draw(st.sampled_from([-9, -11]))])
        ops.append(["sleep", 50.0])          # settle: a watched death is noticed long before this ends
    ops.append(get_op())
    ops.append(["submit", {"kind": "echo", "token": 7777}])
    ops.append(["result", 7777])
    program = [ops]
    if uses_gate:
        program.append([["sleep", draw(st.sampled_from([1e-3, 0.4, 3.0]))], ["open_gate", 0]])
    return {"config": cfg, "program": program, "schedule": draw(schedules(P)), "faults": faults}
