"""Simulated processes: ctx.Process replacement, per-process module globals, kill_process_tree."""
import gc as _realgc
import os as _realos
import pickle
import types
import weakref

from multiprocessing import context as _mpctx

from . import world as _w
from .prims import W, Sentinel, SimLock, TIME, HarnessBug


class OsShim:
    def __init__(self, pid):
        self._pid = pid

    def getpid(self):
        return self._pid

    def __getattr__(self, name):
        return getattr(_realos, name)


class GcShim:
    def __init__(self, proc):
        self.proc = proc

    def collect(self, *a):
        self.proc.gc_collects = getattr(self.proc, "gc_collects", 0) + 1
        return 0

    def __getattr__(self, name):
        return getattr(_realgc, name)


_pe_functions = None


def private_globals(proc):
    """Shallow copy of loky.process_executor's namespace with every module-level function rebound
    onto the copy: mutable module state is private to the simulated process, as after exec."""
    import loky.process_executor as pe

    src = pe.__dict__
    g = dict(src)
    for k, v in src.items():
        if isinstance(v, types.FunctionType) and v.__globals__ is src:
            f = types.FunctionType(v.__code__, g, v.__name__, v.__defaults__, v.__closure__)
            f.__kwdefaults__ = v.__kwdefaults__
            f.__qualname__ = v.__qualname__
            f.__module__ = v.__module__
            g[k] = f
    g["_CURRENT_DEPTH"] = 0
    g["_global_shutdown"] = False
    g["_threads_wakeups"] = weakref.WeakKeyDictionary()
    g["process_pool_executor_at_exit"] = None
    g["_global_shutdown_lock"] = SimLock()
    g["os"] = OsShim(proc.pid)
    g["gc"] = GcShim(proc)
    g["_enable_faulthandler_if_needed"] = lambda: None
    w = proc.w

    def _get_memory_usage(pid, force_gc=False):
        w.sched_point()
        return w.mem_reading(proc, force_gc)

    g["_get_memory_usage"] = _get_memory_usage
    return g


class _DummyPopen:
    pass


class SimProcess:
    """Stands for LokyProcess: same constructor surface, start/join/is_alive/exitcode/sentinel/pid/name/kill."""
    _start_method = "loky"
    _counter = [0]

    def __init__(self, group=None, target=None, name=None, args=(), kwargs={}, daemon=None,
                 init_main_module=False, env=None):
        SimProcess._counter[0] += 1
        self._target = target
        self._args = tuple(args)
        self._kwargs = dict(kwargs)
        self.name = name or f"LokyProcess-{SimProcess._counter[0]}"
        self.daemon = daemon
        self.env = {} if env is None else env
        self.init_main_module = init_main_module
        self._kp = None
        self._sentinel = None

    # -- kernel side
    def start(self):
        w = W()
        w.sched_point()
        if self._kp is not None:
            raise AssertionError("cannot start a process twice")
        from loky.backend.reduction import dumps

        parent = w.cur.proc
        _mpctx.set_spawning_popen(_DummyPopen())
        try:
            data = bytes(dumps((self._target, self._args, self._kwargs)))
        finally:
            _mpctx.set_spawning_popen(None)
        kp = w.new_proc(parent, self.name)
        kp.env = dict(self.env)
        kp.spawn_step = w.steps
        self._kp = kp
        self._sentinel = Sentinel(kp)
        w.unpickle_proc = kp
        try:
            target, args, kwargs = pickle.loads(data)
        finally:
            w.unpickle_proc = None
        kp.globals = private_globals(kp)
        tname = getattr(target, "__name__", None)
        if getattr(target, "__module__", None) == "loky.process_executor" and tname in kp.globals:
            target = kp.globals[tname]
        kp.target_name = tname
        kp.args = args
        kp.cq_id = id(self._args[0]) if self._args else None    # parent-side call queue: identifies the executor
        if w.sample_registered is not None:
            w.sample_registered("spawn")

        def main():
            code = 0
            try:
                target(*args, **kwargs)
            except SystemExit as e:
                c = e.code
                code = c if isinstance(c, int) else (0 if c is None else 1)
            except (_w._ProcExit,):
                raise
            except BaseException as e:
                code = 1
                w.child_errors.append((kp.pid, f"{type(e).__name__}: {e}", _w._tb_tail(e)))
            if kp.alive:
                w._proc_exit(kp, code)

        kp.main = w.spawn(kp, "MainThread", main)
        na = len([q for q in w.procs.values() if q.alive and q is not w.root])
        if na > getattr(w, "max_alive_workers", 0):
            w.max_alive_workers = na
        w.ev("spawn", pid=kp.pid, idx=kp.spawn_index, by=parent.pid)
        del self._target, self._args, self._kwargs

    @property
    def pid(self):
        return self._kp.pid if self._kp else None

    ident = pid

    @property
    def sentinel(self):
        if self._sentinel is None:
            raise ValueError("process not started")
        w = _w.W
        if w is not None and w.verdict is None and w.cur is not None:
            w.sched_point()       # reading a kernel handle: lets a loop over several processes be interleaved
        return self._sentinel

    @property
    def exitcode(self):
        if self._kp is None:
            return None
        w = W()
        w.sched_point()
        return self._kp.exitcode if not self._kp.alive else None

    def is_alive(self):
        if self._kp is None:
            return False
        w = W()
        w.sched_point()
        return self._kp.alive

    def join(self, timeout=None):
        w = W()
        kp = self._kp
        if kp is None:
            raise AssertionError("can only join a started process")
        ok = w.block_until(lambda: not kp.alive, timeout, what=f"waitpid({kp.pid})")
        if ok:
            kp.joined = True

    def kill(self):
        w = W()
        w.sched_point()
        w.kill_proc(self._kp, -9, by="kill()")

    def terminate(self):
        w = W()
        w.sched_point()
        w.kill_proc(self._kp, -15, by="terminate()")

    def close(self):
        pass

    def __repr__(self):
        return f"<SimProcess {self.name} pid={self.pid}>"


def sim_kill_process_tree(process, use_psutil=True):
    """loky.backend.utils.kill_process_tree: SIGKILL descendants (deepest first), then the process, then join."""
    w = W()
    w.sched_point()
    kp = process._kp
    if kp is not None:
        for d in _descendants(w, kp)[::-1]:
            w.kill_proc(d, -9, by="kill_process_tree")
        if kp.alive:
            w.count("kill_process_tree_live")
        w.kill_proc(kp, -9, by="kill_process_tree")
    process.join()


def _descendants(w, kp):
    out = []
    for p in w.procs.values():
        if p.parent is kp:
            out.append(p)
            out += _descendants(w, p)
    return out


_SIMCTX = None


def sim_context():
    global _SIMCTX
    if _SIMCTX is None:
        from loky.backend.context import LokyContext

        class SimContext(LokyContext):
            _name = "loky"
            Process = SimProcess

            def get_context(self, method=None):
                return self

        _SIMCTX = SimContext()
    return _SIMCTX
