"""Hand-written small programs swept systematically (a seed corpus for the single-preemption / PCT / timer-burst sweeps),
next to the Hypothesis-generated ones. Each is a plain case dict; the property module's adjust() still applies."""


def _cfg(executor="plain", max_workers=1, timeout=None, cpu_count=1, initializer="none", **kw):
    d = {"executor": executor, "max_workers": max_workers, "timeout": timeout, "cpu_count": cpu_count, "initializer": initializer}
    d.update(kw)
    return d


def _e(tok):
    return {"kind": "echo", "token": tok}


def _case(cfg, *threads, faults=()):
    return {"config": cfg, "program": [list(t) for t in threads], "schedule": {"kind": "pb", "preempt": []}, "faults": list(faults)}


CORPUS = {
    "echo_shutdown": _case(_cfg(), [["submit", _e(0)], ["result", 0], ["shutdown", True, False]]),
    "unp_arg_del": _case(_cfg(), [["submit", {"kind": "unp_arg", "token": 0}], ["result", 0], ["del"]]),
    "unp_arg_shutdown": _case(_cfg(), [["submit", {"kind": "unp_arg", "token": 0}], ["shutdown", True, False]]),
    "pending_del": _case(_cfg(max_workers=2), [["submit", _e(0)], ["submit", _e(1)], ["del"]]),
    "timeout0_seq": _case(_cfg(timeout=0), [["submit", _e(0)], ["result", 0], ["submit", _e(1)], ["result", 1], ["shutdown", True, False]]),
    "timeout_small_seq": _case(_cfg(timeout=0.5), [["submit", _e(0)], ["result", 0], ["sleep", 0.5], ["submit", _e(1)], ["result", 1],
                                                   ["shutdown", True, False]]),
    "two_submitters": _case(_cfg(max_workers=2), [["submit", _e(0)], ["wait_all"]], [["submit", _e(100)], ["wait_all"], ["shutdown", True, False]]),
    "nowait_shutdown": _case(_cfg(max_workers=2), [["submit", _e(0)], ["submit", _e(1)], ["shutdown", False, False]]),
    "exit_with_pending": _case(_cfg(), [["submit", _e(0)], ["submit", _e(1)], ["exit"]]),
    "cancel_race": _case(_cfg(), [["submit", _e(0)], ["submit", _e(1)], ["cancel", 1], ["wait_all"], ["shutdown", True, False]]),
    "unp_res": _case(_cfg(), [["submit", {"kind": "unp_res", "token": 0}], ["submit", _e(1)], ["wait_all"], ["shutdown", True, False]]),
    "die_then_probe": _case(_cfg(max_workers=2), [["submit", {"kind": "die", "token": 0, "cause": -9}], ["submit", _e(1)], ["wait_all"]],
                            [["hold"], ["sleep", 5000.0], ["probe", 1]]),
    "respawn_dies_at_start": _case(_cfg(timeout=0.5), [["submit", _e(0)], ["result", 0], ["sleep", 2.0], ["submit", _e(1)], ["wait_all"]],
                                   faults=[{"worker": 1, "at": 2, "cause": -9}]),
    "kill_shutdown": _case(_cfg(max_workers=2), [["submit", {"kind": "gate", "token": 0, "g": 0}], ["submit", _e(1)], ["shutdown", True, True]]),
    "reusable_resize": _case(_cfg(executor="reusable", max_workers=1, timeout=10),
                             [["get", {"max_workers": 1, "timeout": 10, "reuse": "auto", "kill_workers": False}], ["submit", _e(0)],
                              ["get", {"max_workers": 2, "timeout": 10, "reuse": "auto", "kill_workers": False}], ["submit", _e(1)], ["wait_all"]]),
    "reusable_crash_get": _case(_cfg(executor="reusable", max_workers=1, timeout=10),
                                [["get", {"max_workers": 1, "timeout": 10, "reuse": "auto", "kill_workers": False}],
                                 ["submit", {"kind": "die", "token": 0, "cause": 3}], ["result", 0],
                                 ["get", {"max_workers": 1, "timeout": 10, "reuse": "auto", "kill_workers": False}], ["submit", _e(1)], ["wait_all"]]),
    "resize_idle_kill_probe": _case(_cfg(executor="reusable", max_workers=1, timeout=1000),
                                    [["get", {"max_workers": 1, "timeout": 1000, "reuse": "auto", "kill_workers": False}],
                                     ["submit", _e(0)], ["result", 0],
                                     ["get", {"max_workers": 2, "timeout": 1000, "reuse": "auto", "kill_workers": False}],
                                     ["sleep", 1.0], ["kill", 1, -9], ["sleep", 50.0],
                                     ["get", {"max_workers": 2, "timeout": 1000, "reuse": "auto", "kill_workers": False}],
                                     ["submit", _e(7777)], ["result", 7777]]),
    "idle_kill_then_probe": _case(_cfg(max_workers=2), [["submit", _e(0)], ["result", 0], ["sleep", 1.0], ["kill", 1, -9], ["sleep", 50.0],
                                                       ["submit", _e(1)], ["wait_all"]]),
    # one worker idle-times out while the other is busy: the pool is partially populated when the next submit respawns
    "partial_pool_respawn": _case(_cfg(max_workers=2, timeout=0.5),
                                  [["submit", {"kind": "gate", "token": 0, "g": 0}], ["submit", _e(1)], ["result", 1], ["sleep", 3.0],
                                   ["submit", _e(2)], ["result", 2], ["wait_all"], ["shutdown", True, False]],
                                  [["sleep", 6.0], ["open_gate", 0]]),
    # a grow request whose new worker dies at start-up
    "resize_grow_new_worker_dies": _case(_cfg(executor="reusable", max_workers=1, timeout=1000),
                                         [["get", {"max_workers": 1, "timeout": 1000, "reuse": "auto", "kill_workers": False}],
                                          ["submit", _e(0)], ["result", 0],
                                          ["get", {"max_workers": 2, "timeout": 1000, "reuse": "auto", "kill_workers": False}],
                                          ["get", {"max_workers": 2, "timeout": 1000, "reuse": "auto", "kill_workers": False}],
                                          ["submit", _e(1)], ["wait_all"]],
                                         faults=[{"worker": 1, "at": 3, "cause": -9}]),
    # a grow request during which the old (idle) worker is killed from outside
    "resize_grow_old_worker_killed": _case(_cfg(executor="reusable", max_workers=1, timeout=1000),
                                           [["get", {"max_workers": 1, "timeout": 1000, "reuse": "auto", "kill_workers": False}],
                                            ["submit", _e(0)], ["result", 0], ["sleep", 5.0],
                                            ["get", {"max_workers": 3, "timeout": 1000, "reuse": "auto", "kill_workers": False}],
                                            ["sleep", 50.0],
                                            ["get", {"max_workers": 3, "timeout": 1000, "reuse": "auto", "kill_workers": False}],
                                            ["submit", _e(7777)], ["result", 7777]],
                                           [["sleep", 5.0], ["kill", 0, -9]]),
    # a long task submitted right when the only worker idles out: it must be executing once everything has settled
    "timeout0_then_gate": _case(_cfg(timeout=0), [["submit", {"kind": "gate", "token": 0, "g": 0}], ["wait_all"], ["submit", _e(1)], ["result", 1],
                                                  ["shutdown", True, False]],
                                [["sleep", 5000.0], ["open_gate", 0]]),
    # more failing-to-pickle tasks than the call queue has slots: every failed item must give its slot back
    "unp_args_fill_queue": _case(_cfg(), [["submit", {"kind": "unp_arg", "token": i}] for i in range(5)] + [["submit", _e(5)], ["wait_all"],
                                                                                                        ["shutdown", True, False]]),
}

FOR = {
    "C01": ["unp_args_fill_queue", "echo_shutdown", "unp_arg_del", "unp_arg_shutdown", "pending_del", "timeout0_seq", "nowait_shutdown", "exit_with_pending",
            "two_submitters", "respawn_dies_at_start", "partial_pool_respawn", "resize_grow_new_worker_dies",
            "resize_grow_old_worker_killed"],
    "C02": ["die_then_probe", "respawn_dies_at_start", "idle_kill_then_probe", "partial_pool_respawn"],
    "C03": ["cancel_race", "timeout0_seq"],
    "C04": ["unp_arg_shutdown", "unp_res", "unp_args_fill_queue"],
    "C05": ["echo_shutdown", "unp_arg_del", "pending_del", "nowait_shutdown", "exit_with_pending", "resize_grow_old_worker_killed"],
    "C06": ["kill_shutdown"],
    "C07": ["timeout0_seq", "timeout_small_seq", "partial_pool_respawn", "timeout0_then_gate"],
    "C08": ["timeout0_seq", "timeout_small_seq", "partial_pool_respawn", "timeout0_then_gate"],
    "C09": ["reusable_crash_get", "resize_idle_kill_probe", "resize_grow_old_worker_killed"],
    "C10": ["reusable_resize", "resize_grow_new_worker_dies", "resize_grow_old_worker_killed"],
}
