"""History oracles shared by the SIM-engine properties. Each returns a list of violation dicts
{kind, detail, where}. They read only user-visible surfaces recorded in the History (future states and
outcomes, API call returns, the simulated process table, the execution log, warnings)."""
from .tasks import h as _h

DONE = ("FINISHED", "CANCELLED", "CANCELLED_AND_NOTIFIED")
BROKEN = ("BrokenProcessPool", "TerminatedWorkerError")


def blocked_summary(H):
    out = []
    for t in H.tasks:
        if t["state"] == "blocked":
            fr = t["where"] or []
            inner = fr[0].split(":")[0:2] if fr else ["?"]
            out.append(f"{t['name']}@{t['pid']}[{t['what']}]<{':'.join(inner)}>")
    return out


def where_sig(H):
    """Stable signature of a stuck state: the loky functions the blocked loky threads sit in."""
    sig = []
    for t in H.tasks:
        if t["state"] == "blocked" and t["where"]:
            names = []
            for s in t["where"]:
                parts = s.split(":")
                if parts[0] in ("process_executor.py", "reusable_executor.py", "queues.py", "synchronize.py", "utils.py"):
                    names.append(parts[1])
            if names:
                role = "worker" if t["pid"] != 1000 else t["name"].rstrip("0123456789")
                sig.append(f"{role}:{names[0]}")
    return ",".join(sorted(set(sig)))


def is_broken_exc(o):
    return o is not None and o[0] == "exc" and ("BrokenProcessPool" in o[1]["mro"])


def released_all(H):
    return H.exit_called or (bool(H.executors) and all(r["released"] for r in H.executors))


def liveness(H):
    """C01 core: quiescent, every API call returned, every future done, nothing left running after release."""
    v = []
    if H.verdict == "livelock":
        v.append({"kind": "livelock", "detail": f"only pollers can run and nothing they poll can change: {H.verdict_detail}",
                  "where": ",".join(sorted(set(x.split(':')[-1] if False else x for x in [where_sig(H)])))})
        return v
    if H.verdict != "quiescent":
        return v
    hung = [o for o in H.ops if o["outcome"] is None]
    pend = [tok for tok, f in H.futures.items() if f["state"] not in DONE]
    if pend:
        v.append({"kind": "future_pending", "detail": f"futures {sorted(pend)} never resolved; blocked: {blocked_summary(H)}; "
                  f"task crashes: {H.task_crashes}", "where": where_sig(H) + _crash_sig(H)})
    if hung:
        ops = [(o["thread"], o["op"][0:2]) for o in hung]
        # a result()/wait_all/map blocked on a pending future is the same symptom as above
        api = [o for o in hung if o["op"][0] in ("shutdown", "get", "exit", "del", "submit", "cancel", "callback")
               or not pend]
        if api:
            v.append({"kind": "api_hang", "detail": f"calls never returned: {[(o['thread'], o['op']) for o in api]}; "
                      f"blocked: {blocked_summary(H)}; task crashes: {H.task_crashes}",
                      "where": api[0]["op"][0] + "|" + where_sig(H) + _crash_sig(H)})
    if not v and released_all(H):
        # the daemon QueueFeederThread is not owed (it cannot delay interpreter exit and holds nothing the user sees)
        left = [t for t in H.tasks if t["pid"] == 1000 and t["state"] == "blocked"
                and t["name"].startswith("ExecutorManagerThread")]
        alive = [p["pid"] for p in H.procs if p["alive"]]
        if left or alive:
            v.append({"kind": "not_terminated_after_release",
                      "detail": f"all executors were shut down / collected / interpreter exit ran, but threads "
                                f"{blocked_summary(H)} remain and workers {alive} are alive; task crashes {H.task_crashes}",
                      "where": where_sig(H) + _crash_sig(H)})
    return v


def _crash_sig(H):
    if not H.task_crashes:
        return ""
    c = H.task_crashes[0]
    return f"|crash:{c[0].rstrip('0123456789')}:{c[2].split(':')[0]}:{(c[3] or ['?'])[-1].split(':')[-1]}"


def own_value(tok, o):
    """A resolved value must be the value of the future's own token."""
    return o[0] == "val" and o[1][0] == "ok" and o[1][1] == tok and o[1][2] == _h(tok)
