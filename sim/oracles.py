"""History oracles shared by the SIM-engine properties. Each returns a list of violation dicts
{kind, detail, where}. They read only user-visible surfaces recorded in the History (future states and
outcomes, API call returns, the simulated process table, the execution log, warnings)."""
from .tasks import h as _h

DONE = ("FINISHED", "CANCELLED", "CANCELLED_AND_NOTIFIED")
BROKEN = ("BrokenProcessPool", "TerminatedWorkerError")


def blocked_summary(H):
    out = []
    for t in H.tasks:
        if t["state"] == "blocked":
            fr = t["where"] or []
            inner = fr[0].split(":")[0:2] if fr else ["?"]
            out.append(f"{t['name']}@{t['pid']}[{t['what']}]<{':'.join(inner)}>")
    return out


def where_sig(H):
    """Stable signature of a stuck state: the loky functions the blocked loky threads sit in."""
    sig = []
    for t in H.tasks:
        if t["state"] == "blocked" and t["where"]:
            names = []
            for s in t["where"]:
                parts = s.split(":")
                if parts[0] in ("process_executor.py", "reusable_executor.py", "queues.py", "synchronize.py", "utils.py"):
                    names.append(parts[1])
            if names:
                role = "worker" if t["pid"] != 1000 else t["name"].rstrip("0123456789")
                sig.append(f"{role}:{names[0]}")
    return ",".join(sorted(set(sig)))


def is_broken_exc(o):
    return o is not None and o[0] == "exc" and ("BrokenProcessPool" in o[1]["mro"])


def released_all(H):
    return H.exit_called or (bool(H.executors) and all(r["released"] for r in H.executors))


def liveness(H):
    """C01 core: quiescent, every API call returned, every future done, nothing left running after release."""
    v = []
    if H.verdict == "livelock":
        v.append({"kind": "livelock", "detail": f"only pollers can run and nothing they poll can change: {H.verdict_detail}",
                  "where": ",".join(sorted(set(x.split(':')[-1] if False else x for x in [where_sig(H)])))})
        return v
    if H.verdict != "quiescent":
        return v
    v += mgmt_crash(H)
    hung = [o for o in H.ops if o["outcome"] is None]
    pend = [tok for tok, f in H.futures.items() if f["state"] not in DONE]
    if pend:
        v.append({"kind": "future_pending", "detail": f"futures {sorted(pend)} never resolved; blocked: {blocked_summary(H)}; "
                  f"task crashes: {H.task_crashes}", "where": where_sig(H) + _crash_sig(H)})
    if hung:
        ops = [(o["thread"], o["op"][0:2]) for o in hung]
        # a result()/wait_all/map blocked on a pending future is the same symptom as above
        api = [o for o in hung if o["op"][0] in ("shutdown", "get", "exit", "del", "submit", "cancel", "callback")
               or not pend]
        if api:
            v.append({"kind": "api_hang", "detail": f"calls never returned: {[(o['thread'], o['op']) for o in api]}; "
                      f"blocked: {blocked_summary(H)}; task crashes: {H.task_crashes}",
                      "where": api[0]["op"][0] + "|" + where_sig(H) + _crash_sig(H)})
    if not v and released_all(H):
        # the daemon QueueFeederThread is not owed (it cannot delay interpreter exit and holds nothing the user sees)
        left = [t for t in H.tasks if t["pid"] == 1000 and t["state"] == "blocked"
                and t["name"].startswith("ExecutorManagerThread")]
        alive = [p["pid"] for p in H.procs if p["alive"]]
        if left or alive:
            v.append({"kind": "not_terminated_after_release",
                      "detail": f"all executors were shut down / collected / interpreter exit ran, but threads "
                                f"{blocked_summary(H)} remain and workers {alive} are alive; task crashes {H.task_crashes}",
                      "where": where_sig(H) + _crash_sig(H)})
    return v


def mgmt_crash(H):
    """An exception escaping the executor manager thread or the queue feeder thread: whatever they still owed (joining
    workers, closing queues and pipes, ending the feeder) is never done."""
    out = []
    for c in H.task_crashes:
        name = c[0].rstrip("0123456789")
        if name == "QueueFeederThread" and (any(p["death"] for p in H.procs) or any(r.get("broken") for r in H.executors)):
            # a feeder error racing with terminate_broken on a pool that is broken anyway (worker death, or a task that could not
            # be un-serialised) finds its future already failed: the thread owes nothing any more
            continue
        if c[1] == 1000 and name in ("ExecutorManagerThread", "QueueFeederThread"):
            out.append({"kind": "management_thread_crashed", "detail": f"{c[0]} died with {c[2]} at {c[3][-3:]}",
                        "where": f"crash:{name}:{c[2].split(':')[0]}:{(c[3] or ['?'])[-1].split(':')[-1]}"})
            break
    return out


def _crash_sig(H):
    if not H.task_crashes:
        return ""
    c = H.task_crashes[0]
    return f"|crash:{c[0].rstrip('0123456789')}:{c[2].split(':')[0]}:{(c[3] or ['?'])[-1].split(':')[-1]}"


def own_value(tok, o):
    """A resolved value must be the value of the future's own token."""
    return o[0] == "val" and o[1][0] == "ok" and o[1][1] == tok and o[1][2] == _h(tok)


# ----------------------------------------------------------------------------- outcome helpers
def is_exc(o, name):
    return o is not None and o[0] == "exc" and name in o[1]["mro"]


def own_outcome(tok, f):
    """Is the (finished) outcome the task's own, by kind? Returns (ok, why)."""
    o = f["outcome"]
    spec = f["spec"]
    k = spec["kind"]
    if o is None:
        return False, "no outcome"
    if k in ("echo", "gate", "big", "bigarg"):
        if not own_value(tok, o):
            return False, f"value is not the task's own: {o}"
        if k == "big" and o[1][3:] != [spec["n"]]:
            return False, f"payload length differs: {o}"
        return True, ""
    if k == "raise":
        if o[0] != "exc" or o[1]["type"] != spec["exc"]:
            return False, f"expected {spec['exc']}, got {o[1]['type'] if o[0] == 'exc' else o}"
        if list(o[1]["args"]) != list(spec.get("args", [])) if isinstance(o[1]["args"], (list, tuple)) else True:
            return False, f"exception args differ: {o[1]['args']} vs {spec.get('args')}"
        if o[1]["cause_type"] != "_RemoteTraceback" or "raiser" not in (o[1]["cause_str"] or ""):
            return False, f"remote traceback missing as __cause__: {o[1]['cause_type']}"
        return True, ""
    if k == "unp_arg":
        ok = o[0] == "exc" and o[1]["type"] == "PicklingError" and o[1]["cause_type"] == "_RemoteTraceback"
        return ok, "" if ok else f"expected PicklingError with remote traceback, got {o}"
    if k == "hugearg":
        ok = o[0] == "exc" and o[1]["type"] == "RuntimeError" and o[1]["cause_type"] == "_RemoteTraceback"
        return ok, "" if ok else f"expected RuntimeError (task too large to send) with remote traceback, got {o}"
    if k == "struct_arg":
        ok = o[0] == "exc" and o[1]["type"] == "RuntimeError" and o[1]["cause_type"] == "_RemoteTraceback"
        return ok, "" if ok else f"expected RuntimeError with remote traceback, got {o}"
    if k == "unp_res":
        ok = o[0] == "exc" and o[1]["type"] == "ZeroDivisionError" and o[1]["cause_type"] == "_RemoteTraceback"
        return ok, "" if ok else f"expected the pickling error of the result with remote traceback, got {o}"
    return False, f"kind {k} has no own outcome (it breaks the pool)"


def cancelled_ok(f):
    return f["state"] in ("CANCELLED", "CANCELLED_AND_NOTIFIED") and f.get("cancel")


def exec_counts(H):
    c = {}
    for e in H.exec_log:
        c[e["token"]] = c.get(e["token"], 0) + 1
    return c


def any_broken(H):
    """Every place a broken-pool error surfaced to the user."""
    out = []
    for tok, f in H.futures.items():
        if is_broken_exc(f["outcome"]):
            out.append(("future", tok, f["outcome"][1]["type"]))
    for o in H.ops:
        oc = o["outcome"]
        if oc and oc[0] == "raise" and "BrokenProcessPool" in oc[1]["mro"]:
            out.append(("op", o["thread"], o["op"][0], oc[1]["type"]))
    return out


def probe_outcomes(H):
    return [o for o in H.ops if o["op"][0] == "probe"]


# ----------------------------------------------------------------------------- C02
def c02(H):
    v = []
    if H.verdict != "quiescent":
        return liveness(H) if H.verdict == "livelock" else v
    deaths = [s for s in H.death_snapshots if not s["announced"]]
    if not deaths:
        return v
    v += liveness(H)
    D = deaths[0]
    kill_shutdown = any(o["op"][0] == "shutdown" and o["op"][2] for o in H.ops)
    codes = [p["exitcode"] for p in H.procs if p["death"] and p["exitcode"] is not None]
    for tok, f in H.futures.items():
        st_at_d = D["states"].get(tok)
        o = f["outcome"]
        if st_at_d == "FINISHED" and f["state"] != "FINISHED":
            v.append({"kind": "outcome_changed", "detail": f"future {tok} was resolved before the death and is {f['state']} now", "where": "snapshot"})
            continue
        if f["state"] not in DONE:
            continue  # reported by liveness
        if f["state"] != "FINISHED":
            continue  # cancelled
        ok, why = own_outcome(tok, f)
        if ok:
            continue
        if is_broken_exc(o):
            if o[1]["type"] == "TerminatedWorkerError" and codes and not any(f"({c})" in o[1]["str"] for c in codes):
                v.append({"kind": "exit_code_not_named", "detail": f"future {tok}: TerminatedWorkerError does not name any "
                          f"exit code of the dead workers {codes}: {o[1]['str'][-300:]}", "where": "message"})
            continue
        if kill_shutdown and is_exc(o, "ShutdownExecutorError"):
            continue
        if f["spec"]["kind"] in ("unl_arg", "unl_res", "die"):
            v.append({"kind": "not_broken", "detail": f"future {tok} ({f['spec']['kind']}) ended with {o} instead of a broken-pool error", "where": f["spec"]["kind"]})
            continue
        v.append({"kind": "fabricated_or_wrong_outcome", "detail": f"future {tok} ({f['spec']['kind']}) unresolved at the "
                  f"death ended with {o}: {why}", "where": f["spec"]["kind"]})
    # later submit raises the broken-pool error
    released_before = any((o["op"][0] in ("shutdown", "del", "exit")) and o["start"] <= D["step"] for o in H.ops)
    for pr in probe_outcomes(H):
        oc = pr["outcome"]
        if oc is None or pr["start"] <= D["step"] or H.case["config"]["executor"] != "plain":
            continue   # (reusable: the probing thread may hold a newer instance than the one that broke)
        if oc[0] == "ok" and oc[1] != "skipped":
            v.append({"kind": "submit_accepted_after_death", "detail": f"a submit() issued after the pool had an abrupt "
                      f"worker death (pid {D['pid']}) was accepted: {oc}", "where": "probe"})
        elif oc[0] == "raise" and not released_before and "BrokenProcessPool" not in oc[1]["mro"] \
                and not any(o["op"][0] in ("shutdown", "del", "exit") for o in H.ops):
            v.append({"kind": "submit_wrong_error", "detail": f"later submit raised {oc[1]['type']} instead of the broken-pool error", "where": "probe"})
    # all workers killed and reaped
    if not v:
        mine = [p for p in H.procs if p["spawn_step"] <= D["step"]]   # a later get_reusable_executor() builds a new pool
        alive = [p["pid"] for p in mine if p["alive"]]
        unj = [p["pid"] for p in mine if not p["alive"] and not p["joined"]]
        if alive or unj:
            v.append({"kind": "workers_not_reaped", "detail": f"after the pool broke: alive={alive} dead-but-never-joined={unj}",
                      "where": "alive" if alive else "unjoined"})
    return v


# ----------------------------------------------------------------------------- C03
def expected_map(a):
    its = [list(range(100 * j, 100 * j + n)) for j, n in enumerate(a["lens"])]
    out = []
    for args in zip(*its):
        x = list(args) + [0] * (3 - len(args))
        out.append(["sum"] + x)
    return out


def c03(H):
    v = []
    if H.verdict != "quiescent":
        return v
    cnt = exec_counts(H)
    for tok, f in H.futures.items():
        if f["state"] == "FINISHED" and f["outcome"][0] == "val" and not own_value(tok, f["outcome"]):
            v.append({"kind": "wrong_value", "detail": f"future {tok} holds {f['outcome']}", "where": "value"})
        if cnt.get(tok, 0) > 1:
            v.append({"kind": "executed_twice", "detail": f"task {tok} executed {cnt[tok]} times: "
                      f"{[e for e in H.exec_log if e['token'] == tok]}", "where": "exec"})
        if f.get("cancel") and cnt.get(tok, 0) > 0:
            v.append({"kind": "cancelled_but_executed", "detail": f"cancel() returned True for {tok} but its body ran", "where": "cancel"})
        if f.get("cancel") and f["state"] not in ("CANCELLED", "CANCELLED_AND_NOTIFIED"):
            v.append({"kind": "cancelled_but_resolved", "detail": f"cancel() returned True for {tok}, state {f['state']}", "where": "cancel"})
    calls = {}
    for c in H.map_calls:
        calls[tuple(c)] = calls.get(tuple(c), 0) + 1
    for m in H.maps:
        if m["out"] is None:
            continue
        exp = expected_map(m["args"])
        if m["out"] != exp:
            v.append({"kind": "map_differs", "detail": f"map{m['args']} gave {m['out']} expected {exp}", "where": "map"})
    dup = {k: n for k, n in calls.items() if n > sum(1 for m in H.maps for e in expected_map(m["args"]) if tuple(e[1:]) == k)}
    if dup:
        v.append({"kind": "map_body_executed_twice", "detail": f"map bodies executed more often than submitted: {dup}", "where": "map"})
    return v


# ----------------------------------------------------------------------------- C04 / C07 shared: pool never broken
def spurious_respawn(H):
    """The manager re-spawns (and warns 'A worker stopped while some jobs were given') only when work is owed: at the moment
    of each such warning - it is issued right where the decision is taken - some future must be unresolved. (The moment of
    the worker's own exit is not the moment of the decision: a task submitted between the exit announcement and its
    processing is owed a worker.)"""
    if any(o["op"][0] == "cancel" for o in H.ops):
        return []        # (a cancel() between the manager's reading of the counters and the warning is legal)
    bad = [(st_, n) for st_, msg, n in getattr(H, "warn_log", []) if "A worker stopped while some jobs" in msg and n == 0]
    if bad:
        return [{"kind": "spurious_respawn", "detail": f"respawn warning(s) at steps {[b[0] for b in bad]} while no future was unresolved "
                 f"(running/pending accounting inconsistent)", "where": "respawn"}]
    return []


def no_break(H, what):
    v = []
    b = any_broken(H)
    if b:
        v.append({"kind": "pool_broken", "detail": f"{what}: broken-pool errors surfaced: {b[:4]}; worker exit codes "
                  f"{[(p['pid'], p['exitcode']) for p in H.procs]}; child errors {H.child_errors[:2]}", "where": b[0][0]})
    return v


def c04(H):
    v = []
    if H.verdict != "quiescent":
        return liveness(H) if H.verdict == "livelock" else v
    v += liveness(H)
    v += no_break(H, "task-level failures must be contained")
    kill_shutdown = any(o["op"][0] == "shutdown" and o["op"][2] for o in H.ops)
    for tok, f in H.futures.items():
        if f["state"] != "FINISHED":
            continue
        ok, why = own_outcome(tok, f)
        if not ok and not is_broken_exc(f["outcome"]) and not (kill_shutdown and is_exc(f["outcome"], "ShutdownExecutorError")):
            v.append({"kind": "wrong_outcome", "detail": f"future {tok} ({f['spec']['kind']}): {why}", "where": f["spec"]["kind"]})
    for pr in probe_outcomes(H):
        oc = pr["outcome"]
        if oc and oc[0] == "raise" and not any(o["op"][0] in ("shutdown", "exit") for o in H.ops):
            v.append({"kind": "pool_unusable_after_containment", "detail": f"a fresh submit afterwards failed: {oc[1]['type']}: {oc[1]['str'][:200]}", "where": "probe"})
    v += spurious_respawn(H)
    bad = [p for p in H.procs if p["exitcode"] not in (0, None) and not (p["death"] and p["death"].get("by") == "kill_process_tree")]
    if bad:
        v.append({"kind": "worker_died", "detail": f"workers ended abnormally with no fault injected: {[(p['pid'], p['exitcode']) for p in bad]}; {H.child_errors[:2]}", "where": "exitcode"})
    return v


# ----------------------------------------------------------------------------- C05
def c05(H):
    v = []
    if H.verdict != "quiescent":
        return liveness(H) if H.verdict == "livelock" else v
    v += liveness(H)
    v += no_break(H, "graceful shutdown")
    for tok, f in H.futures.items():
        if f["state"] != "FINISHED" or f["spec"].get("probe"):
            continue
        ok, why = own_outcome(tok, f)
        if not ok:
            v.append({"kind": "not_drained", "detail": f"future {tok} submitted before the shutdown did not get its own outcome: {why}", "where": f["spec"]["kind"]})
    if released_all(H) and not v:
        bad = [(p["pid"], p["exitcode"], p["joined"]) for p in H.procs if p["exitcode"] != 0 or not p["joined"]]
        if bad:
            v.append({"kind": "unclean_worker_exit", "detail": f"(pid, exitcode, joined) {bad}", "where": "exit"})
        left = [t for t in H.tasks if t["pid"] == 1000 and t["state"] == "blocked" and t["name"].startswith("QueueFeederThread")]
        if left and not bad:
            v.append({"kind": "feeder_thread_left_behind", "detail": f"shutdown completed but the management thread(s) "
                      f"{[(t['name'], t['what']) for t in left]} never ended", "where": "feeder"})
    done_sd = set()
    for o in sorted(H.ops, key=lambda o: (o["thread"], o["k"])):
        if o["op"][0] == "shutdown" and o["outcome"] == ["ok", None]:
            done_sd.add(o["thread"])
        o["after_shutdown"] = o["thread"] in done_sd and o["op"][0] == "submit"
    for o in H.ops:
        if o["op"][0] == "submit" and o["outcome"] and o["outcome"][0] == "raise" and o.get("after_shutdown"):
            if o["outcome"][1]["type"] != "ShutdownExecutorError":
                v.append({"kind": "submit_after_shutdown_wrong_error", "detail": f"{o['outcome'][1]['type']}: {o['outcome'][1]['str'][:200]}", "where": "submit"})
        if o["op"][0] == "submit" and o["outcome"] and o["outcome"][0] == "ok" and o.get("after_shutdown"):
            v.append({"kind": "submit_accepted_after_shutdown", "detail": f"{o['op']}", "where": "submit"})
    return v


# ----------------------------------------------------------------------------- C06
def c06(H):
    v = []
    if H.verdict == "livelock":
        return liveness(H)
    if H.verdict != "quiescent":
        return v
    kills = [o for o in H.ops if (o["op"][0] == "shutdown" and o["op"][2]) or (o["op"][0] == "get" and o["op"][1].get("kill_workers"))]
    if not kills:
        return v
    v += mgmt_crash(H)
    hung = [o for o in kills if o["outcome"] is None]
    if hung:
        v.append({"kind": "kill_shutdown_hangs", "detail": f"{[(o['thread'], o['op']) for o in hung]} never returned although it "
                  f"must not wait for tasks; blocked: {blocked_summary(H)}; crashes {H.task_crashes}", "where": where_sig(H) + _crash_sig(H)})
        return v
    other_deaths = any(p["death"] and p["death"].get("by") != "kill_process_tree" for p in H.procs)
    for tok, f in H.futures.items():
        if f["state"] not in DONE:
            v.append({"kind": "future_dropped", "detail": f"future {tok} left {f['state']} after the forced shutdown; blocked {blocked_summary(H)}; crashes {H.task_crashes}", "where": where_sig(H) + _crash_sig(H)})
            continue
        if f["state"] != "FINISHED":
            continue
        o = f["outcome"]
        if is_exc(o, "ShutdownExecutorError"):
            continue
        if is_broken_exc(o):
            if not other_deaths:
                v.append({"kind": "broken_instead_of_shutdown_error", "detail": f"future {tok} failed with {o[1]['type']} although "
                          f"no worker died other than through the forced shutdown", "where": "broken"})
            continue
        ok, why = own_outcome(tok, f)
        if not ok:
            v.append({"kind": "wrong_outcome", "detail": f"future {tok}: {why}", "where": f["spec"]["kind"]})
    if not v and released_all(H):
        alive = [p["pid"] for p in H.procs if p["alive"]]
        unj = [p["pid"] for p in H.procs if not p["alive"] and not p["joined"]]
        if alive or unj:
            v.append({"kind": "workers_not_reaped", "detail": f"alive={alive} never joined={unj}", "where": "alive" if alive else "unjoined"})
    return v


# ----------------------------------------------------------------------------- C07
def c07(H):
    v = []
    if H.verdict != "quiescent":
        return liveness(H) if H.verdict == "livelock" else v
    v += liveness(H)
    v += no_break(H, "idle-timeout exits must be invisible")
    cnt = exec_counts(H)
    for tok, f in H.futures.items():
        if f["state"] == "FINISHED":
            ok, why = own_outcome(tok, f)
            if not ok and not is_broken_exc(f["outcome"]):
                v.append({"kind": "wrong_outcome", "detail": f"future {tok}: {why}", "where": f["spec"]["kind"]})
            if cnt.get(tok, 0) != 1 and f["spec"]["kind"] in ("echo", "gate", "big", "bigarg", "raise", "unp_res"):
                v.append({"kind": "not_exactly_once", "detail": f"task {tok} executed {cnt.get(tok, 0)} times", "where": "exec"})
    # (a worker spawned by a resize that races with another thread's shutdown() of the same singleton finds the queues
    #  closed and exits with status 1: that is not an idle-timeout exit and no pool is reported broken - not C07's business)
    sd = [o["start"] for o in H.ops if o["op"][0] in ("shutdown", "exit")]
    t_sd = min(sd) if sd else 10 ** 9
    bad = [(p["pid"], p["exitcode"]) for p in H.procs if p["exitcode"] not in (0, None) and p["spawn_step"] < t_sd]
    if bad:
        v.append({"kind": "timeout_exit_reported_as_crash", "detail": f"worker exit codes {bad}; {H.child_errors[:2]}", "where": "exitcode"})
    return v


# ----------------------------------------------------------------------------- C08
def _get_ops(H):
    """(start, end, max_workers) of every get_reusable_executor call, including the implicit one made by a
    thread's first submit/hold/map/probe when it has not called get before (it uses the config's arguments)."""
    out = []
    seen_get = set()
    for o in sorted(H.ops, key=lambda o: (o["thread"], o["k"])):
        name = o["op"][0]
        if name == "get":
            if o["outcome"] and o["outcome"][0] == "raise":
                continue          # the call failed: it configured nothing (the thread's next submit obtains the singleton anew)
            out.append((o["start"], o.get("end"), o["op"][1]["max_workers"]))
            seen_get.add(o["thread"])
        elif name in ("submit", "hold", "map", "probe") and o["thread"] not in seen_get:
            out.append((o["start"], o.get("end"), H.case["config"]["max_workers"]))
            seen_get.add(o["thread"])
    return out


def bound_at(H, step):
    """Largest max_workers in force at `step` since the last completed resize (plain executor: its max_workers)."""
    cfg = H.case["config"]
    if cfg["executor"] == "plain":
        return cfg["max_workers"]
    gets = _get_ops(H)
    cands = []
    ended = [(s0, e, m) for (s0, e, m) in gets if e is not None and e < step]
    if ended:
        last = max(ended, key=lambda x: x[1])
        # calls that overlapped the last-completed one are not ordered with it by the observer: take them all
        cands += [m for (s0, e, m) in ended if e >= last[0]]
    cands += [m for (s0, e, m) in gets if s0 <= step and (e is None or e >= step)]
    if not cands:
        cands.append(cfg["max_workers"])
    return max(cands)


def c08(H, bound=None):
    v = []
    if H.verdict not in ("quiescent", "livelock"):
        return v
    for step, nb, nalive in H.concurrency_samples:
        b = bound if bound is not None else bound_at(H, step)
        if nb > b:
            v.append({"kind": "too_many_concurrent_bodies", "detail": f"{nb} task bodies executing at step {step}, "
                      f"largest max_workers in force {b}", "where": "bodies"})
            break
    for step, where_, nreg, mw, oid in H.reg_samples:
        b = bound if bound is not None else bound_at(H, step)
        extra = 1 if where_ == "spawn" else 0     # sampled inside p.start(): the process is registered right after
        if nreg + extra > b:
            v.append({"kind": "too_many_workers_registered", "detail": f"{nreg + extra} workers registered at step {step} "
                      f"({where_}), largest max_workers in force {b}", "where": "registered"})
            break
    return v


def c08_delivery(H):
    """At gate-open time (long after everything settled) exactly max_workers gate bodies are executing."""
    v = []
    if H.verdict != "quiescent":
        return v
    for g in H.gate_open_obs:
        exs = g["executors"]
        if len(exs) != 1 or exs[0]["broken"] or exs[0]["shutdown"]:
            continue
        mw = exs[0]["max_workers"]
        if g["unfinished_gates"] < mw:
            continue
        if g["bodies"] != mw:
            v.append({"kind": "parallelism_not_delivered" if g["bodies"] < mw else "too_many_concurrent_bodies",
                      "detail": f"{g['unfinished_gates']} long tasks pending on a healthy executor with max_workers={mw}, "
                                f"but {g['bodies']} bodies executing when everything had settled (workers alive {g['alive']}, "
                                f"registered {exs[0]['registered']})", "where": "delivery"})
    return v


# ----------------------------------------------------------------------------- C09
def c09(H):
    v = []
    if H.verdict != "quiescent":
        return liveness(H) if H.verdict == "livelock" else v
    for o in H.ops:
        if o["op"][0] == "get" and o["outcome"] and o["outcome"][0] == "raise":
            v.append({"kind": "factory_call_raised", "detail": f"get_reusable_executor({o['op'][1]}) raised {o['outcome'][1]['type']}: "
                      f"{o['outcome'][1]['str'][:200]}", "where": o["outcome"][1]["type"]})
    single = len([ops for ops in H.case["program"] if any(op[0] not in ("sleep", "open_gate", "kill") for op in ops)]) == 1 \
        and not any(op[0] == "callback" and op[2] == "get_changed" for ops in H.case["program"] for op in ops)
    created = None      # (timeout, init) the current instance was created with (sequential model)
    max_id = -1
    for g in H.get_log:
        healthy_before = g["prev_flags"] is not None and not any(g["prev_flags"])
        if g["same"] and g["prev_flags"] is not None and any(g["prev_flags"]):
            v.append({"kind": "dead_executor_returned", "detail": f"the previous instance was (broken, shutdown)={g['prev_flags']} "
                      f"when the call began and was returned again", "where": "same"})
        if single:
            kw = (g["timeout_kw"], g["init_kw"] if not isinstance(g["init_kw"], list) else tuple(g["init_kw"]))
            allow = g["reuse"] is True or (g["reuse"] == "auto" and created == kw)
            if g["prev_flags"] is None:
                expect_same = None
            else:
                expect_same = healthy_before and allow
            if expect_same is True and not g["same"] and not any(g["prev_flags_at_return"] or (False,)):
                v.append({"kind": "healthy_instance_not_reused", "detail": f"previous instance healthy, reuse={g['reuse']} "
                          f"allowed it (created with {created}, requested {kw}) but a new instance was returned", "where": "identity"})
            if expect_same is False and g["same"]:
                v.append({"kind": "instance_reused_against_rule", "detail": f"reuse={g['reuse']}, previous created with {created}, "
                          f"requested {kw}, previous flags {g['prev_flags']}: the same instance was returned", "where": "identity"})
            if not g["same"]:
                created = kw
            if g["max_workers_at_return"] != g["requested"]:
                v.append({"kind": "wrong_size", "detail": f"requested max_workers={g['requested']}, executor has "
                          f"{g['max_workers_at_return']} at return", "where": "size"})
        if not g["same"]:
            if g["ids_before"] and g["executor_id"] <= max(g["ids_before"]):
                v.append({"kind": "executor_id_not_increasing", "detail": f"new instance id {g['executor_id']} after ids {g['ids_before']}", "where": "id"})
            if g.get("earlier_instances_workers_alive") and not g["prev_workers_alive_at_return"]:
                v.append({"kind": "previous_instance_not_shut_down", "detail": f"a new instance (id {g['executor_id']}) was returned "
                          f"while workers {g['earlier_instances_workers_alive']} of an earlier instance were still alive", "where": "earlier_alive"})
            if g["prev_workers_alive_at_return"]:
                v.append({"kind": "previous_instance_not_shut_down", "detail": f"a new instance was returned while workers "
                          f"{g['prev_workers_alive_at_return']} of the previous one were still alive", "where": "prev_alive"})
    return v


def c09_probe(H):
    """The last factory call of a history is followed by a probe task. If every abrupt worker death of the history happened
    before the long settle period that precedes that call, the call must not hand out the dead pool: the probe completes."""
    if H.verdict != "quiescent" or 7777 not in H.futures:
        return []
    f = H.futures[7777]
    ops = sorted([o for o in H.ops if o["thread"] == 0], key=lambda o: o["k"])
    last_get = [o for o in ops if o["op"][0] == "get"][-1:]
    settle = [o for o in ops if o["op"] == ["sleep", 50.0]]
    if not last_get or last_get[0]["outcome"] is None or last_get[0]["outcome"][0] != "ok":
        return []
    deaths = [p["death"]["step"] for p in H.procs if p["death"] and p["death"].get("by") != "kill_process_tree"]
    late = [d for d in deaths if not settle or d >= (settle[0].get("end") or 0)]
    if late:
        return []        # a worker died during / after the call: the probe may legitimately see the broken pool
    o = f["outcome"]
    if f["state"] == "FINISHED" and own_value(7777, o):
        return []
    return [{"kind": "factory_returned_unusable_executor", "detail": f"every worker death happened before the settle period, yet the probe task "
             f"submitted on the executor returned by the last get_reusable_executor call ended with {o or f['state']} "
             f"(call info: {str(last_get[0]['outcome'][1])[:300]})", "where": "probe"}]


def c09_work(H):
    """Every task submitted on an executor obtained from get_reusable_executor completes with its own outcome
    (race profile: no crashes, no shutdowns in the program)."""
    v = []
    if H.verdict != "quiescent":
        return v
    for o in H.ops:
        if o["op"][0] == "submit" and o["outcome"] and o["outcome"][0] == "raise":
            v.append({"kind": "submit_refused", "detail": f"thread {o['thread']} obtained an executor from get_reusable_executor "
                      f"and its submit raised {o['outcome'][1]['type']}: {o['outcome'][1]['str'][:200]}", "where": o["outcome"][1]["type"]})
    for tok, f in H.futures.items():
        if f["state"] == "FINISHED":
            ok, why = own_outcome(tok, f)
            if not ok:
                v.append({"kind": "wrong_outcome", "detail": f"future {tok}: {why}", "where": f["spec"]["kind"]})
    return v


# ----------------------------------------------------------------------------- C10
def _window_disturbed(H, start, end):
    """Did a worker time out or die between start and end (steps)?"""
    for st_, kind, data in H.events:
        if st_ < start or st_ > end:
            continue
        if kind == "death":
            return True
        if kind == "fire" and data.get("pid") != 1000:
            return True
    return False


def c10(H):
    v = []
    if H.verdict == "livelock":
        return liveness(H)
    if H.verdict != "quiescent":
        return v
    hung = [o for o in H.ops if o["op"][0] == "get" and o["outcome"] is None]
    if hung:
        v.append({"kind": "resize_hangs", "detail": f"get_reusable_executor never returned: {[(o['thread'], o['op'][1]) for o in hung]}; "
                  f"blocked {blocked_summary(H)}; crashes {H.task_crashes}", "where": where_sig(H) + _crash_sig(H)})
        return v
    for o in H.ops:
        if o["op"][0] == "get" and o["outcome"] and o["outcome"][0] == "raise":
            if o["op"][1].get("warn_error") and o["outcome"][1]["type"] == "UserWarning":
                continue      # the caller turned warnings into errors: the "running jobs" warning aborts that request
            v.append({"kind": "factory_call_raised", "detail": f"get_reusable_executor({o['op'][1]}) raised {o['outcome'][1]['type']}: "
                      f"{o['outcome'][1]['str'][:200]}", "where": o["outcome"][1]["type"]})
    faults = any(p["death"] for p in H.procs)
    if not faults:
        for tok, f in H.futures.items():
            if f["state"] not in DONE:
                v.append({"kind": "future_pending", "detail": f"future {tok} never resolved; blocked {blocked_summary(H)}", "where": where_sig(H)})
            elif f["state"] == "FINISHED":
                ok, why = own_outcome(tok, f)
                if not ok:
                    v.append({"kind": "wrong_outcome", "detail": f"future {tok}: {why}", "where": f["spec"]["kind"]})
    single = len([ops for ops in H.case["program"] if any(op[0] not in ("sleep", "open_gate", "kill") for op in ops)]) == 1
    for g in H.get_log:
        if not g["same"] or g["prev_max_workers"] is None:
            continue
        if single and g["max_workers_at_return"] != g["requested"]:
            v.append({"kind": "wrong_size", "detail": f"requested {g['requested']}, _max_workers {g['max_workers_at_return']}", "where": "size"})
        if not g["prev_started"] or not single:
            continue
        if any(g["flags_at_return"]) or _window_disturbed(H, g["start"], g["end"]):
            continue
        to = g["timeout_kw"]
        if to is not None and (to < 10 or any(k == "fire" and d.get("pid") != 1000 and st_ <= g["end"] for st_, k, d in H.events)):
            # with a short idle timeout a worker may leave on its own at any moment of the call without any observable
            # timer event of its own (its deadline passes while another timer moves the clock): "no worker timed out
            # meanwhile" cannot be established from outside, so the survivor clause is only checked for timeout None / >= 10 s
            continue
        new = g["requested"]
        prev_size = g.get("prev_user_size") if g.get("prev_user_size") is not None else g["prev_max_workers"]
        if new == prev_size:
            continue          # the statement is about a *different* max_workers (an equal one is a no-op)
        fired = {}
        for st_, kind, data in H.events:
            if kind == "fire" and data.get("pid") != 1000:
                fired.setdefault(data["pid"], st_)
        own = [data["pid"] for st_, kind, data in H.events if kind == "exit" and g["start"] <= st_ <= g["end"]
               and fired.get(data["pid"], 10 ** 9) <= st_]
        if own:
            continue          # a worker whose idle timer had fired (possibly just before the call) left during the call
        if len(g["pids_after"]) != new:
            v.append({"kind": "wrong_number_of_live_workers", "detail": f"resize {prev_size}->{new} returned with live "
                      f"workers {g['pids_after']} (no worker timed out or died meanwhile)", "where": "count"})
        kept = set(g["pids_before"]) & set(g["pids_after"])
        want = min(len(g["pids_before"]), new)
        if len(kept) != want:
            v.append({"kind": "survivors_restarted", "detail": f"resize {prev_size}->{new}: workers before {g['pids_before']}, "
                      f"after {g['pids_after']}: {len(kept)} kept, expected {want}", "where": "survivors"})
    return v
