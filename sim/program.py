"""Generated programs: JSON case -> run on a fresh World -> History (plain data for the oracles)."""
import gc
import sys
import warnings

from . import patches, prims, procs, tasks
from . import world as _w
from .world import World, where

BROKEN_NAMES = ("BrokenProcessPool", "TerminatedWorkerError")


def _exc_summary(e):
    cause = e.__cause__
    return {
        "type": type(e).__name__,
        "mro": [c.__name__ for c in type(e).__mro__],
        "args": _safe(e.args),
        "str": str(e)[:900],
        "cause_type": type(cause).__name__ if cause is not None else None,
        "cause_str": (str(cause)[:1500] if cause is not None else None),
    }


def _safe(x):
    try:
        import json
        json.dumps(x)
        return x
    except Exception:
        return repr(x)[:200]


def _val_summary(v):
    if isinstance(v, tuple) and v and v[0] == "ok":
        return ["ok", v[1], v[2]] + ([len(v[3])] if len(v) > 3 else [])
    return ["other", repr(v)[:80]]


class _NoExecutor(Exception):
    pass


class Ctx:
    def __init__(self, w, case):
        self.w = w
        self.case = case
        self.cfg = case["config"]
        self.ex = None
        self.executors = []       # [{'obj_id', 'executor_id', 'released', 'kind'}]
        self.futs = {}            # token -> Future
        self.fut_meta = {}        # token -> {'spec', 'thread', 'cancel': bool|None, 'submit_step'}
        self.ops = []             # per op outcome records
        self.cb_log = []
        self.exit_called = False
        self.maps = []
        self.pending_submit = set()
        self.death_snapshots = []
        self.ex_taken = 0
        self.gate_open_obs = []
        self.get_log = []
        self.cb_registered = set()
        self.reg_samples = []


def _mk_executor(ctx, cfgx):
    """Create a plain ProcessPoolExecutor from a config dict."""
    import loky.process_executor as pe

    kw = dict(max_workers=cfgx.get("max_workers", 2), timeout=cfgx.get("timeout"))
    init = cfgx.get("initializer", "none")
    if init == "ok":
        kw.update(initializer=tasks.init_ok, initargs=("M",))
    elif init == "raises":
        kw.update(initializer=tasks.init_raise)
    elif isinstance(init, list) and init[0] == "raise_on":
        kw.update(initializer=tasks.init_raise_on, initargs=(tuple(init[1]), "M"))
    ex = pe.ProcessPoolExecutor(**kw)
    _register(ctx, ex, "plain")
    return ex


def _register(ctx, ex, kind):
    for r in ctx.executors:
        if r["obj"] is ex:
            return r
    r = {"obj": ex, "executor_id": getattr(ex, "executor_id", None), "kind": kind, "released": False,
         "max_workers": ex._max_workers, "holders": set()}
    ctx.executors.append(r)
    return r


def _get_reusable(ctx, a):
    import loky.reusable_executor as re_

    kw = dict(max_workers=a.get("max_workers", 2), timeout=a.get("timeout", 10),
              reuse=a.get("reuse", "auto"), kill_workers=a.get("kill_workers", False))
    init = a.get("initializer", "none")
    if init == "ok":
        kw.update(initializer=tasks.init_ok, initargs=("M",))
    prev = re_._executor
    prev_flags = None
    prev_cq = None
    pids_before = []
    prev_started = False
    prev_mw = None
    w = ctx.w
    if prev is not None:
        prev_flags = (bool(prev._flags.broken), bool(prev._flags.shutdown))
        prev_cq = id(prev._call_queue) if prev._call_queue is not None else None
        pids_before = sorted(pid for pid, p in list(prev._processes.items()) if p._kp is not None and p._kp.alive)
        prev_started = prev._executor_manager_thread is not None
        prev_mw = prev._max_workers
    # the size the caller last obtained from a call that returned (what "a different max_workers" is relative to,
    # whatever the executor has recorded meanwhile)
    prev_user = getattr(prev, "_verif_user_size", None) if prev is not None else None
    ids_before = [r["executor_id"] for r in ctx.executors if r["kind"] == "reusable"]
    earlier_cqs = [r.get("cq_id") for r in ctx.executors if r["kind"] == "reusable" and r.get("cq_id") is not None]
    start = w.steps
    if a.get("warn_error"):
        w.cur.warn_error = True
        try:
            ex = re_.get_reusable_executor(**kw)
        finally:
            w.cur.warn_error = False
    else:
        ex = re_.get_reusable_executor(**kw)
    # (no scheduling point between the return above and the reads below)
    info = {"same": ex is prev, "executor_id": ex.executor_id, "prev_flags": prev_flags,
            "prev_flags_at_return": (None if prev is None else (bool(prev._flags.broken), bool(prev._flags.shutdown))),
            "flags_at_return": (bool(ex._flags.broken), bool(ex._flags.shutdown)),
            "max_workers_at_return": ex._max_workers, "requested": kw["max_workers"],
            "pids_before": pids_before, "prev_started": prev_started, "prev_max_workers": prev_mw,
            "prev_user_size": prev_user if ex is prev else None,
            "pids_after": sorted(pid for pid, p in list(ex._processes.items()) if p._kp is not None and p._kp.alive),
            "registered_after": len(ex._processes),
            "ids_before": ids_before, "start": start, "end": w.steps,
            "prev_workers_alive_at_return": ([] if prev_cq is None or ex is prev else
                                             [q.pid for q in w.procs.values() if getattr(q, "cq_id", None) == prev_cq and q.alive]),
            "timeout_kw": kw["timeout"], "init_kw": init, "reuse": kw["reuse"],
            "prev_kwargs_equal": None}
    ex._verif_user_size = kw["max_workers"]
    r = _register(ctx, ex, "reusable")
    if r.get("cq_id") is None and ex._call_queue is not None:
        r["cq_id"] = id(ex._call_queue)
    info["earlier_instances_workers_alive"] = ([] if ex is prev else
                                               [q.pid for q in w.procs.values() if q.alive and getattr(q, "cq_id", None) in earlier_cqs
                                                and getattr(q, "cq_id", None) != r.get("cq_id")])
    for o in ctx.executors:
        # (only older instances: this bookkeeping may run long after the call returned, when a newer instance exists)
        if o["obj"] is not ex and o["kind"] == "reusable" and (o["executor_id"] is None or o["executor_id"] < ex.executor_id):
            o["released"] = True
    ctx.get_log.append(info)
    return ex, info


def _submit(ctx, th, spec):
    tok = spec["token"]
    kind = spec["kind"]
    ex = th["ex"]
    if kind == "echo":
        args = (tasks.echo, tok)
    elif kind == "raise":
        args = (tasks.raiser, tok, spec["exc"], tuple(spec.get("args", ())))
    elif kind == "gate":
        args = (tasks.gate, tok, spec.get("g", 0))
    elif kind == "die":
        args = (tasks.die, tok, spec["cause"])
    elif kind == "big":
        args = (tasks.big, tok, spec["n"])
    elif kind == "bigarg":
        args = (tasks.echo, tok, b"y" * spec["n"])
    elif kind == "hugearg":
        args = (tasks.echo, tok, b"z" * 1100000)       # larger than the simulated send_bytes limit
    elif kind == "unp_arg":
        args = (tasks.echo, tok, tasks.UnpicklableArg())
    elif kind == "struct_arg":
        args = (tasks.echo, tok, tasks.StructErrorArg())
    elif kind == "unl_arg":
        args = (tasks.echo, tok, tasks.UnloadableArg())
    elif kind == "unp_res":
        args = (tasks.ret_unpicklable, tok)
    elif kind == "unl_res":
        args = (tasks.ret_unloadable, tok)
    else:
        raise _w.HarnessBug(f"unknown task kind {kind}")
    f = ex.submit(*args)
    ctx.futs[tok] = f
    ctx.fut_meta[tok] = {"spec": spec, "thread": th["i"], "cancel": None, "submit_step": ctx.w.steps,
                         "executor": id(ex)}
    return f


def _user_thread(ctx, i, ops):
    w = ctx.w
    th = {"i": i, "ex": None, "mine": []}

    def ensure_ex():
        if th["ex"] is not None:
            return th["ex"]
        if ctx.cfg["executor"] == "plain":
            raise _NoExecutor()
        ex, info = _get_reusable(ctx, ctx.cfg)
        th["ex"] = ex
        return th["ex"]

    def drop_ref():
        """This thread lets go of its reference to a plain executor (refcounting collects it when it was the last)."""
        ex = th["ex"]
        th["ex"] = None
        if ex is None or ctx.cfg["executor"] != "plain":
            return
        for r in ctx.executors:
            if r["obj"] is ex:
                r["holders"].discard(i)
                if not r["holders"]:
                    r["released"] = True
                    r.setdefault("shutdown_step", w.steps)
                    r["deleted"] = True
                    r["obj"] = None
        del ex

    def body():
        if ctx.cfg["executor"] == "plain":
            # every thread holds its own reference from the start, as threads started with the executor as argument
            if i == 0:
                ctx.ex = _mk_executor(ctx, ctx.cfg)
                ctx.executors[-1]["holders"] = set(range(len(ctx.case["program"])))
            else:
                w.block_until(lambda: ctx.ex is not None, None, what="user:wait-for-executor")
            th["ex"] = ctx.ex
            ctx.ex_taken += 1
            if ctx.ex_taken == len(ctx.case["program"]):
                ctx.ex = None
        for k, op in enumerate(ops):
            rec = {"thread": i, "k": k, "op": op, "start": w.steps, "outcome": None,
                   "after_shutdown": any(o[0] == "shutdown" for o in ops[:k])}
            ctx.ops.append(rec)
            try:
                rec["outcome"] = ["ok", _do(op)]
            except BaseException as e:
                if isinstance(e, (_w.HarnessBug, _w._ProcExit)):
                    raise
                rec["outcome"] = ["raise", _exc_summary(e)]
            rec["end"] = w.steps
        drop_ref()

    def _do(op):
        name = op[0]
        if name == "submit":
            ensure_ex()
            spec = op[1]
            _submit(ctx, th, spec)
            th["mine"].append(spec["token"])
            return None
        if name == "result":
            f = ctx.futs.get(op[1])
            if f is None:
                return "skipped"
            return _val_summary(f.result())
        if name == "wait_all":
            seen = set()
            while True:
                todo = [tok for tok, m in ctx.fut_meta.items() if m["thread"] == i and tok not in seen]
                if not todo:
                    break
                for tok in todo:
                    seen.add(tok)
                    try:
                        ctx.futs[tok].result()
                    except BaseException as e:
                        if isinstance(e, (_w.HarnessBug, _w._ProcExit)):
                            raise
            return None
        if name == "cancel":
            f = ctx.futs.get(op[1])
            if f is None:
                return "skipped"
            r = f.cancel()
            ctx.fut_meta[op[1]]["cancel"] = bool(r) or bool(ctx.fut_meta[op[1]]["cancel"])
            return r
        if name == "map":
            ex = ensure_ex()
            a = op[1]
            its = [list(range(100 * j, 100 * j + n)) for j, n in enumerate(a["lens"])]
            mrec = {"args": a, "thread": i, "out": None}
            ctx.maps.append(mrec)
            out = list(ex.map(tasks.add, *its, chunksize=a["chunksize"]))
            mrec["out"] = [list(x) for x in out]
            return len(out)
        if name == "shutdown":
            ex = th["ex"]
            if ex is None:
                return "skipped"
            for r in ctx.executors:
                if r["obj"] is ex:
                    r["released"] = True
                    r.setdefault("shutdown_step", w.steps)
                    r["kill"] = r.get("kill") or bool(op[2])
            ex.shutdown(wait=op[1], kill_workers=op[2])
            return None
        if name == "del":
            if th["ex"] is None:
                return "skipped"
            drop_ref()
            return None
        if name == "kill":
            # an external abrupt death (kill -9 from outside, OOM killer, ...) of the k-th spawned worker at this point of the
            # program, wherever that worker is - typically blocked idle on the call queue, which no fault placed at one of
            # the worker's own scheduling points can express
            w.sched_point()
            for q in list(w.procs.values()):
                if q is not w.root and q.spawn_index == op[1] and q.alive and q.main is not None:
                    reason = w.kill_veto(q, q.main) if w.kill_veto else None
                    if reason is not None:
                        w.excluded[reason] = w.excluded.get(reason, 0) + 1
                        return "vetoed"
                    w.kill_proc(q, op[2], injected=True, by="external")
                    w.sched_point()
                    return "killed"
            return "skipped"
        if name == "get":
            ex, info = _get_reusable(ctx, op[1])
            th["ex"] = ex
            return info
        if name == "callback":
            f = ctx.futs.get(op[1])
            if f is None:
                return "skipped"
            kind = op[2]
            import weakref
            exref = weakref.ref(th["ex"]) if th["ex"] is not None else (lambda: None)

            def cb(fut, kind=kind, tok=op[1]):
                ctx.cb_log.append((tok, kind, w.steps))
                if kind == "raise":
                    raise ValueError("callback raises")
                if kind == "raise_sysexit":
                    raise SystemExit(3)
                if kind == "get_changed":
                    # a done-callback (it runs in the manager thread) asks for a differently configured singleton
                    try:
                        _get_reusable(ctx, {"max_workers": 1, "timeout": 333, "reuse": "auto", "kill_workers": False})
                        ctx.cb_log.append((tok, "get_changed_returned", None))
                    except BaseException as e:
                        if isinstance(e, (_w.HarnessBug, _w._ProcExit)):
                            raise
                        ctx.cb_log.append((tok, "get_changed_raised", type(e).__name__))
                    return
                if kind == "submit":
                    spec = {"kind": "echo", "token": 10000 + tok}
                    try:
                        ex = exref()
                        if ex is None:
                            ctx.cb_log.append((tok, "submit_skipped_executor_gone", None))
                            return
                        _submit(ctx, {"ex": ex, "i": i}, spec)
                    except BaseException as e:
                        if isinstance(e, (_w.HarnessBug, _w._ProcExit)):
                            raise
                        ctx.cb_log.append((tok, "submit_failed", type(e).__name__))

            ctx.cb_registered.add(op[1])
            f.add_done_callback(cb)
            return None
        if name == "wait_cb":
            if op[1] not in ctx.cb_registered:
                return "skipped"
            # wait until the done-callback attached to that future has run to its end (it runs in the manager thread)
            w.block_until(lambda: any(e[0] == op[1] and str(e[1]).startswith("get_changed_") for e in ctx.cb_log), None,
                          what="user:wait-for-callback")
            return None
        if name == "probe":
            # late submit(s) on the executor this thread holds: outcome recorded for the oracles
            ex = th["ex"]
            if ex is None:
                return "skipped"
            out = []
            toks = []
            for j in range(op[1]):
                tok = 9000 + 10 * i + j
                _submit(ctx, th, {"kind": "echo", "token": tok, "probe": True})
                toks.append(tok)
            for tok in toks:
                out.append(_val_summary(ctx.futs[tok].result()))
            return out
        if name == "hold":
            # take the executor reference now (reusable: the current singleton), without submitting
            ensure_ex()
            return None
        if name == "open_gate":
            w.sched_point()
            ctx.gate_open_obs.append({"step": w.steps, "bodies": len(w.running_bodies),
                                      "alive": len([q for q in w.procs.values() if q.alive and q is not w.root]),
                                      "executors": [{"max_workers": r["obj"]._max_workers,
                                                     "registered": len(r["obj"]._processes),
                                                     "broken": bool(r["obj"]._flags.broken),
                                                     "shutdown": bool(r["obj"]._flags.shutdown)}
                                                    for r in ctx.executors if r["obj"] is not None and not r["released"]],
                                      "unfinished_gates": sum(1 for tok, f in ctx.futs.items()
                                                              if ctx.fut_meta[tok]["spec"]["kind"] == "gate"
                                                              and f._state in ("PENDING", "RUNNING"))})
            w.gates[op[1]] = True
            w.version += 1
            return None
        if name == "sleep":
            w.sleep(op[1])
            return None
        if name == "exit":
            # interpreter exit: threading._shutdown runs the registered atexit callbacks
            # (exotic zone kept out: a first submit racing with an interpreter exit that found no hook registered)
            others = [t for t in w.tasks if t.name.startswith("user") and t is not w.cur]
            w.block_until(lambda: bool(w.root.atexit) or all(t.state in ("done", "dead") for t in others), None,
                          what="user:exit-waits-for-atexit-hook")
            ctx.exit_called = True
            for r in ctx.executors:
                r["released"] = True
            for func, a, k in list(w.root.atexit):
                func(*a, **k)
            return None
        raise _w.HarnessBug(f"unknown op {name}")

    return body


class History:
    """Plain-data record of one run."""


def run_case(case, verbose=False, hooks=None):
    patches.install()
    gc.collect()
    gc.disable()
    cfg = case["config"]
    w = World(schedule=case.get("schedule"), faults=case.get("faults"), cap=case.get("cap", _w.STEP_CAP))
    w.fdtable = {}
    w.sem_created = []
    w.sem_unlinked = []
    w.tracker_log = []
    w.child_errors = []
    w.exec_log = []
    w.init_log = []
    w.map_calls = []
    w.running_bodies = {}
    w.max_concurrency = 0
    w.concurrency_samples = []
    w.max_alive_workers = 0
    w.cpu_count = cfg.get("cpu_count", 2)
    mem = cfg.get("mem")

    def mem_reading(proc, force_gc):
        if not mem:
            return 100
        k = getattr(proc, "_memk", 0)
        proc._memk = k + 1
        return mem[min(k, len(mem) - 1)]

    w.mem_reading = mem_reading
    ctx = Ctx(w, case)
    if hooks:
        hooks(w, ctx)

    def on_death(p):
        w.running_bodies.pop(p.pid, None)
        snap = {tok: f._state for tok, f in ctx.futs.items()}
        ctx.death_snapshots.append({"pid": p.pid, "step": w.steps, "states": snap,
                                    "announced": _announced(p)})

    w.on_death = on_death
    def pending_probe():
        n = sum(1 for f in ctx.futs.values() if f._state in ("PENDING", "RUNNING"))
        # (map() keeps its own futures: count what the executors themselves still owe as well)
        m = sum(len(r["obj"]._pending_work_items) for r in ctx.executors if r["obj"] is not None)
        return max(n, m)

    w.pending_probe = pending_probe
    w.warn_log = []

    def sample_registered(where_):
        for r in ctx.executors:
            o = r["obj"]
            if o is not None:
                ctx.reg_samples.append((w.steps, where_, len(o._processes), o._max_workers, id(o) & 0xFFFF))

    w.sample_registered = sample_registered
    _w.W = w
    patches.reset_module_state()
    if cfg.get("parent_depth"):
        import loky.process_executor as _pe
        _pe._CURRENT_DEPTH = cfg["parent_depth"]     # the simulated parent is itself a worker at that nesting depth
    fns = [(f"user{i}", _user_thread(ctx, i, ops)) for i, ops in enumerate(case["program"])]
    with warnings.catch_warnings(record=True) as wlist:
        warnings.simplefilter("always")
        verdict = w.run(fns)
    gc.enable()
    hist = _history(w, ctx, verdict, wlist)
    if verbose:
        _print_trace(w, hist)
    return hist


def _announced(p):
    """Did the dying worker complete its exit announcement (result_queue.put(pid) returned)?
    Read from where its main task is parked, by source text (robust to line shifts)."""
    d = p.death or {}
    fr = d.get("where") or []
    for s in fr:
        if ":_process_worker:" in s:
            src = s.split(":", 2)[2]
            if "worker_exit_lock" in src or "_python_exit" in src or "Exited cleanly" in src or "is_clean" in src \
                    or "Main process did not release" in src or src.strip() == "return" or "Exit due to memory leak" in src:
                return True
            return False
    return False


def _history(w, ctx, verdict, wlist):
    H = History()
    H.verdict = verdict
    H.verdict_detail = w.verdict_detail
    H.steps = w.steps
    H.decisions = w.decision_no
    H.now = w.now
    H.case = ctx.case
    H.futures = {}
    for tok, f in ctx.futs.items():
        st = f._state
        out = None
        if st == "FINISHED":
            if f._exception is not None:
                out = ["exc", _exc_summary(f._exception)]
            else:
                out = ["val", _val_summary(f._result)]
        H.futures[tok] = {"state": st, "outcome": out, **{k: v for k, v in ctx.fut_meta[tok].items()}}
    H.ops = ctx.ops
    H.maps = ctx.maps
    H.cb_log = ctx.cb_log
    H.exit_called = ctx.exit_called
    H.executors = [{k: (sorted(v) if k == "holders" else v) for k, v in r.items() if k != "obj"}
                   for r in ctx.executors]
    for r, src in zip(H.executors, ctx.executors):
        o = src["obj"]
        if o is not None:
            r["broken"] = type(o._flags.broken).__name__ if o._flags.broken else None
            r["shutdown_flag"] = bool(o._flags.shutdown)
            r["max_workers_final"] = o._max_workers
    H.procs = [{"pid": p.pid, "idx": p.spawn_index, "spawn_step": getattr(p, "spawn_step", 0), "alive": p.alive, "exitcode": p.exitcode, "joined": p.joined,
                "death": ({k: v for k, v in p.death.items()} if p.death else None), "marker": p.marker}
               for p in w.procs.values() if p is not w.root]
    H.tasks = [{"name": t.name, "pid": t.proc.pid, "state": t.state, "what": t.what, "daemon": t.daemon,
                "where": (where(t, full=True)[:4] if t.state == "blocked" else None)}
               for t in w.tasks]
    H.exec_log = w.exec_log
    H.init_log = w.init_log
    H.map_calls = w.map_calls
    H.task_crashes = w.task_crashes
    H.child_errors = w.child_errors
    H.warnings = [str(x.message)[:120] for x in wlist]
    H.warn_log = list(getattr(w, "warn_log", None) or [])
    H.events = w.events
    H.death_snapshots = ctx.death_snapshots
    H.gate_open_obs = ctx.gate_open_obs
    H.get_log = ctx.get_log
    w.sample_registered("end")
    H.reg_samples = ctx.reg_samples
    H.timers_fired = w.timers_fired
    H.preemptions = w.preemptions
    H.excluded = dict(w.excluded)
    if ctx.case.get("_excluded_program"):
        H.excluded["program_or_config_adjusted"] = ctx.case["_excluded_program"]
    H.max_concurrency = w.max_concurrency
    H.max_alive_workers = w.max_alive_workers
    H.concurrency_samples = w.concurrency_samples
    H.hist = dict(w.hist)
    H.sems_left = sorted(w.sems)
    H.tracker_log = w.tracker_log
    return H


def _print_trace(w, H):
    print(f"verdict={H.verdict} detail={H.verdict_detail} steps={H.steps} now={H.now:.4f}")
    for st, kind, data in w.events[-80:]:
        print(f"  [{st}] {kind} {data}")
    for t in H.tasks:
        if t["state"] == "blocked":
            print(f"  BLOCKED {t['name']}@{t['pid']} on {t['what']} at {t['where']}")
    for c in H.task_crashes:
        print("  TASK-CRASH", c)
    for tok, f in sorted(H.futures.items()):
        print(f"  future {tok} {f['spec']['kind']} state={f['state']} outcome={f['outcome']}")
    for o in H.ops:
        print(f"  op t{o['thread']}#{o['k']} {o['op']} -> {str(o['outcome'])[:200]}")
