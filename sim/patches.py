"""One-time, process-wide substitution of the names loky's concurrency goes through.

Installed once per shard process (shards are dedicated to SIM); per-case state lives in the World.
Every substitution point is verified first: a missing one is a harness error (exit 2), never a violation.
"""
import logging
import types
import weakref

from vlib.common import HarnessError, add_repo_to_path

from . import world as _w
from . import prims, procs

_installed = False


def _need(mod, name, kind=None):
    if not hasattr(mod, name):
        raise HarnessError(f"substitution point {mod.__name__}.{name} is missing")
    v = getattr(mod, name)
    if kind is not None and not isinstance(v, kind):
        raise HarnessError(f"substitution point {mod.__name__}.{name} has kind {type(v).__name__}, expected {kind}")
    return v


def install():
    global _installed
    if _installed:
        return
    add_repo_to_path()
    import multiprocessing as mp
    import multiprocessing.queues as mpq
    import multiprocessing.connection as mpc
    import concurrent.futures._base as cfb
    import loky
    import loky.process_executor as pe
    import loky.reusable_executor as re_
    import loky.backend.queues as lq
    import loky.backend.synchronize as ls
    import loky.backend.utils as lu

    # ---- verify
    _need(pe, "mp", types.ModuleType)
    _need(pe, "warnings", types.ModuleType)
    _need(pe, "wait")
    _need(pe, "threading", types.ModuleType)
    _need(pe, "sleep")
    _need(pe, "time")
    _need(pe, "kill_process_tree", types.FunctionType)
    _need(pe, "get_context", types.FunctionType)
    _need(pe, "_ExecutorManagerThread", type)
    for n in ("_global_shutdown_lock", "_threads_wakeups", "_global_shutdown", "_CURRENT_DEPTH",
              "process_pool_executor_at_exit", "_process_worker", "_python_exit", "_USE_PSUTIL"):
        _need(pe, n)
    _need(re_, "time", types.ModuleType)
    _need(re_, "warnings", types.ModuleType)
    _need(re_, "threading", types.ModuleType)
    for n in ("_executor_lock", "_executor", "_executor_kwargs", "_next_executor_id", "cpu_count"):
        _need(re_, n)
    _need(lq, "threading", types.ModuleType)
    _need(mpq, "threading", types.ModuleType)
    _need(mpq, "time", types.ModuleType)
    _need(mpq, "connection", types.ModuleType)
    _need(ls, "_SemLock")
    _need(ls, "sem_unlink")
    _need(ls, "resource_tracker", types.ModuleType)
    _need(ls, "_time")
    _need(lu, "time", types.ModuleType)
    _need(cfb, "threading", types.ModuleType)
    if not pe._USE_PSUTIL:
        raise HarnessError("psutil expected in /venv (memory-leak path is generated)")

    # ---- substitute
    mpshim = types.SimpleNamespace(Pipe=prims.sim_pipe, util=mp.util)
    pe.mp = mpshim
    pe.wait = prims.sim_wait
    pe.threading = prims.THREADING
    pe.sleep = prims.TIME.sleep
    pe.time = prims.TIME.time
    pe.kill_process_tree = procs.sim_kill_process_tree
    pe.get_context = lambda method=None: procs.sim_context()
    pe._enable_faulthandler_if_needed = lambda: None
    emt = pe._ExecutorManagerThread
    emt.start = prims.thread_start
    emt.join = prims.thread_join
    emt.is_alive = prims.thread_is_alive
    re_.time = prims.TIME
    re_.threading = prims.THREADING
    re_.cpu_count = lambda *a, **k: (_w.W.cpu_count if _w.W is not None else 2)
    re_.warnings = _TaskWarnings()
    pe.warnings = _LoggedWarnings()
    lq.threading = prims.THREADING
    mpq.threading = prims.THREADING
    mpq.time = prims.TIME
    mpq.connection = types.SimpleNamespace(Pipe=prims.sim_pipe)
    ls._SemLock = prims.SimSemLock
    ls.sem_unlink = prims.sim_sem_unlink
    ls.resource_tracker = prims.TrackerStub()
    ls._time = prims.TIME.time
    lu.time = prims.TIME
    cfb.threading = prims.THREADING
    logging.getLogger("concurrent.futures").disabled = True
    _installed = True


class _TaskWarnings:
    """`warnings` as seen by loky.reusable_executor: a task that runs with "warnings as errors" (the `warn_error` option
    of a get op, i.e. `-W error` / simplefilter("error") around that call) gets the warning raised; everybody else gets
    the ordinary module.  (The real filter list is process-global; the per-task flag keeps the other threads' warnings
    out of the generated domain.)"""

    def __getattr__(self, name):
        import warnings
        return getattr(warnings, name)

    def warn(self, message, category=UserWarning, *a, **k):
        import warnings
        w = _w.W
        t = w.cur if w is not None else None
        if t is not None and getattr(t, "warn_error", False):
            raise (message if isinstance(message, Warning) else (category or UserWarning)(message))
        k.setdefault("stacklevel", 2)
        return warnings.warn(message, category, *a, **k)


class _LoggedWarnings:
    """`warnings` as seen by loky.process_executor: every warning is also logged with the step and the amount of unresolved
    work at that very moment (the respawn warning is issued by the manager right where it decides to respawn)."""

    def __getattr__(self, name):
        import warnings
        return getattr(warnings, name)

    def warn(self, message, category=UserWarning, *a, **k):
        import warnings
        w = _w.W
        if w is not None and getattr(w, "warn_log", None) is not None:
            w.warn_log.append((w.steps, str(message)[:80], w.pending_probe() if w.pending_probe else None))
        k.setdefault("stacklevel", 2)
        return warnings.warn(message, category, *a, **k)


def reset_module_state():
    """Per-case reset of module-level state created at import (must be called with the new world current)."""
    import loky.process_executor as pe
    import loky.reusable_executor as re_

    pe._global_shutdown_lock = prims.SimLock()
    pe._threads_wakeups = weakref.WeakKeyDictionary()
    pe._global_shutdown = False
    pe._CURRENT_DEPTH = 0
    pe.process_pool_executor_at_exit = None
    re_._executor_lock = prims.SimRLock()
    re_._executor = None
    re_._executor_kwargs = None
    re_._next_executor_id = 0
