"""C14: generated actor programs on loky.backend.synchronize primitives, run on the simulated kernel.

Case = {"prim": lock|rlock|sem|bsem|cond|event, "n": int, "actors": [{"proc": k, "ops": [...]}], "schedule": ...}
Actors with proc == 0 are threads of the creating process; actors with proc k >= 1 run in simulated child process k,
on a copy of the primitive made through loky's real __getstate__/__setstate__ (pickled at SimProcess.start)."""
import gc
import warnings

from . import patches, prims, procs
from . import world as _w
from .world import World, where

LATE = 5000.0     # logical time of the settled observation; the fresh handshake follows


class SyncHistory:
    pass


def _W():
    return _w.W


def _rec(kind, **d):
    w = _W()
    d.update(kind=kind, step=w.steps, actor=w.cur_actor())
    w.sync["log"].append(d)
    return d


def _enter_cs(limit_key="cs"):
    w = _W()
    s = w.sync
    s["occ"] += 1
    if s["occ"] > s["max_occ"]:
        s["max_occ"] = s["occ"]
    w.sched_point()


def _leave_cs():
    _W().sync["occ"] -= 1


def _run_actor(prim, kind, aid, ops):
    """Executes one actor's op list; every outcome (return value or exception type) is recorded."""
    w = _W()
    me = w.cur
    me.actor_id = aid
    held = 0          # how many times this actor currently holds the lock/semaphore (its own book-keeping)
    for k, op in enumerate(ops):
        name = op[0]
        rec = {"actor": aid, "k": k, "op": op, "start": w.steps, "fires0": me.fires, "out": None, "end": None}
        w.sync["ops"].append(rec)
        try:
            if name == "acq":
                r = prim.acquire(op[1], op[2])
                if r:
                    held += 1
                    if kind != "rlock" or held == 1:
                        _enter_cs()
                rec["out"] = ["ret", bool(r)]
            elif name == "rel":
                if held > 0:
                    if kind != "rlock" or held == 1:
                        _leave_cs()
                    held -= 1
                    rec["held"] = True
                else:
                    rec["held"] = False
                if rec["held"] or w.sync["misuse"] or kind == "rlock":
                    prim.release()
                    rec["out"] = ["ret", None]
                else:
                    rec["out"] = ["skipped"]     # its acquire failed: releasing would free another actor's lock
            elif name == "with":
                with prim:
                    held += 1
                    if kind != "rlock" or held == 1:
                        _enter_cs()
                        _leave_cs()
                    held -= 1
                rec["out"] = ["ret", None]
            elif name == "sleep":
                w.sleep(op[1])
                rec["out"] = ["ret", None]
            elif name == "wait" and len(op) > 2 and op[2] == 2:     # Condition, lock held recursively
                with prim:
                    with prim:
                        w.sync["asleep"][(aid, k)] = {"timeout": op[1], "start": w.steps}
                        try:
                            r = prim.wait(op[1])
                        finally:
                            w.sync["asleep"].pop((aid, k), None)
                        rec["mine_after"] = bool(prim._lock._semlock._is_mine())
                        rec["count_after"] = prim._lock._semlock._count()
                        _enter_cs(); _leave_cs()
                rec["out"] = ["ret", bool(r)]
            elif name == "wait":            # Condition
                with prim:
                    _enter_cs(); _leave_cs()
                    w.sync["asleep"][(aid, k)] = {"timeout": op[1], "start": w.steps}
                    rec["asleep_key"] = [aid, k]
                    try:
                        r = prim.wait(op[1])
                    finally:
                        w.sync["asleep"].pop((aid, k), None)
                    rec["mine_after"] = bool(prim._lock._semlock._is_mine())
                    _enter_cs(); _leave_cs()
                rec["out"] = ["ret", bool(r)]
            elif name in ("notify", "notify_all"):
                with prim:
                    _enter_cs(); _leave_cs()
                    rec["asleep_at_start"] = [[list(key), v["timeout"]] for key, v in w.sync["asleep"].items()]
                    w.sync["notifying"] += 1
                    try:
                        getattr(prim, name)()
                    finally:
                        w.sync["notifying"] -= 1
                    _enter_cs(); _leave_cs()
                rec["out"] = ["ret", None]
            elif name == "observe":         # settled observation (late actor)
                rec["asleep_now"] = [[list(key), v["timeout"]] for key, v in w.sync["asleep"].items()]
                rec["ev_waiting"] = sorted(w.sync["ev_waiting"])
                rec["out"] = ["ret", None]
            elif name == "set":
                prim.set()
                rec["out"] = ["ret", None]
            elif name == "clear":
                prim.clear()
                rec["out"] = ["ret", None]
            elif name == "is_set":
                rec["out"] = ["ret", bool(prim.is_set())]
            elif name == "ewait":
                w.sync["ev_waiting"].add((aid, k))
                try:
                    r = prim.wait(op[1])
                finally:
                    w.sync["ev_waiting"].discard((aid, k))
                rec["out"] = ["ret", bool(r)]
            else:
                raise _w.HarnessBug(f"unknown sync op {name}")
        except BaseException as e:
            if isinstance(e, (_w.HarnessBug, _w._ProcExit, _w.StaleWorld)):
                raise
            rec["out"] = ["raise", type(e).__name__, str(e)[:200]]
            # keep the harness' own occupancy book-keeping consistent after an (expected) misuse error
        rec["end"] = w.steps
        rec["fires"] = me.fires - rec["fires0"]
        rec["tid"] = me.tid


def _proc_main(prim, kind, specs):
    """Main of a simulated child process: first actor in the main thread, the others as threads."""
    ths = []
    for aid, ops in specs[1:]:
        t = prims.SimThread(target=_run_actor, args=(prim, kind, aid, ops), name=f"actor{aid}")
        t.start()
        ths.append(t)
    _run_actor(prim, kind, specs[0][0], specs[0][1])
    for t in ths:
        t.join()


def _make(ctx, case):
    k = case["prim"]
    if k == "lock":
        return ctx.Lock()
    if k == "rlock":
        return ctx.RLock()
    if k == "sem":
        return ctx.Semaphore(case["n"])
    if k == "bsem":
        return ctx.BoundedSemaphore(case["n"])
    if k == "cond":
        return ctx.Condition()
    if k == "event":
        return ctx.Event()
    raise _w.HarnessBug(k)


def run_case(case, verbose=False, hooks=None):
    patches.install()
    gc.collect()
    gc.disable()
    w = World(schedule=case.get("schedule"), faults=[], cap=case.get("cap", 20000))
    w.fdtable = {}
    w.sem_created = []
    w.sem_unlinked = []
    w.tracker_log = []
    w.child_errors = []
    w.cpu_count = 2
    w.sync = {"occ": 0, "max_occ": 0, "asleep": {}, "ev_waiting": set(), "log": [], "ops": []}
    w.sync["misuse"] = len(case["actors"]) == 1
    w.sync["notifying"] = 0
    from vlib import findings_sim
    if "timer:expiry_during_notify_with_other_sleeper" in (case.get("_exclusions") if "_exclusions" in case
                                                           else findings_sim.active_exclusions()):
        def veto(u):
            # open finding F-b: a timed waiter expiring while a notify is in progress and another waiter sleeps
            aid = getattr(u, "actor_id", None)
            if w.sync["notifying"] and any(k[0] == aid and v["timeout"] is not None for k, v in w.sync["asleep"].items()) \
                    and any(k[0] != aid and v["timeout"] is None for k, v in w.sync["asleep"].items()):
                # (only when a never-expiring waiter sleeps too: it is the one whose wake-up token gets taken back)
                return "timer:expiry_during_notify_with_other_sleeper"
            return None
        w.timer_fire_hook = veto
    w.cur_actor = lambda: getattr(w.cur, "actor_id", None)
    _w.W = w
    patches.reset_module_state()
    kind = case["prim"]

    def coordinator():
        ctx = procs.sim_context()
        prim = _make(ctx, case)
        if case["prim"] == "event":
            w.sync["event_lock"] = prim._cond._lock._semlock.name
        by_proc = {}
        for aid, a in enumerate(case["actors"]):
            by_proc.setdefault(a["proc"], []).append((aid, a["ops"]))
        ths, ps = [], []
        for pk in sorted(by_proc):
            if pk == 0:
                for aid, ops in by_proc[0]:
                    t = prims.SimThread(target=_run_actor, args=(prim, kind, aid, ops), name=f"actor{aid}")
                    t.start()
                    ths.append(t)
            else:
                p = ctx.Process(target=_proc_main, args=(prim, kind, by_proc[pk]))
                p.start()
                ps.append(p)
        for t in ths:
            t.join()
        for p in ps:
            p.join()
        w.sync["all_done"] = True

    with warnings.catch_warnings(record=True):
        warnings.simplefilter("always")
        verdict = w.run([("user0", coordinator)])
    gc.enable()
    H = SyncHistory()
    H.verdict = verdict
    H.verdict_detail = w.verdict_detail
    H.case = case
    H.steps = w.steps
    H.decisions = w.decision_no
    H.ops = w.sync["ops"]
    H.max_occ = w.sync["max_occ"]
    H.all_done = bool(w.sync.get("all_done"))
    H.task_crashes = w.task_crashes
    H.child_errors = w.child_errors
    H.timers_fired = w.timers_fired
    H.preemptions = w.preemptions
    H.excluded = dict(w.excluded)
    H.blocked = [{"name": t.name, "pid": t.proc.pid, "what": t.what, "actor": getattr(t, "actor_id", None),
                  "where": where(t, full=True)[:3]} for t in w.tasks if t.state == "blocked"]
    H.nprocs = len(w.procs)
    H.event_lock = w.sync.get("event_lock")
    H.sem_release_log = w.sem_release_log if case["prim"] == "event" else []
    if verbose:
        print(f"verdict={verdict} detail={w.verdict_detail} steps={w.steps} max_occ={H.max_occ}")
        for o in H.ops:
            print(f"  actor{o['actor']}#{o['k']} {o['op']} [{o['start']}..{o['end']}] fires={o.get('fires')} -> {o['out']} "
                  f"{ {k: v for k, v in o.items() if k in ('asleep_at_start', 'asleep_now', 'mine_after', 'held')} }")
        for b in H.blocked:
            print("  BLOCKED", b)
        for c in H.task_crashes + H.child_errors:
            print("  CRASH", c)
    return H
