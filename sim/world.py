"""Simulated kernel: tasks (one runs at a time), logical clock, processes, scheduling policy.

A run is a pure function of (program, schedule, faults): every interaction with the simulated
kernel is a scheduling point; decisions are taken from the pre-drawn schedule of the case.
"""
import sys
import threading as _rt
import time as _realtime

T_FAIR = 1.0          # fairness bound (logical seconds): an enabled task runs before the clock moves past enabled_since+T
STEP_CAP = 30000
POLL_JUMP = 3         # unchanged sleep cycles before a sleeper is treated as a poller for clock jumps
POLL_LIVELOCK = 200
STREAK_MAX = 400      # default policy: forced round-robin switch after this many non-blocking points of one task
SPIN_LIVELOCK = 6000  # steps without any kernel-state change while a single task keeps running   # unchanged sleep cycles of every remaining sleeper before the livelock verdict

W = None              # the current world (one per case)

_rt.stack_size(512 * 1024)


class StaleWorld(Exception):
    """A simulated object of a finished case was used from outside its world."""


class HarnessBug(Exception):
    pass


def cur_world():
    return W


class Proc:
    """Kernel-side record of a simulated process."""

    def __init__(self, w, pid, parent, name):
        self.w = w
        self.pid = pid
        self.parent = parent
        self.name = name
        self.alive = True
        self.exitcode = None
        self.tasks = []
        self.fds = set()          # open SimConnection endpoints
        self.main = None          # main task
        self.globals = None       # private clone of loky.process_executor globals (workers)
        self.spawn_index = None
        self.fault_at = None      # (nth scheduling point of main task, cause)
        self.death = None         # dict describing an injected/self-inflicted abrupt death
        self.joined = False
        self.marker = None        # set by initializer
        self.depth = None
        self.atexit = []
        self.exiting = False
        self.msg_in_progress = None


class Task:
    def __init__(self, w, proc, name, fn, thread_obj=None):
        self.w = w
        self.proc = proc
        self.name = name
        self.fn = fn
        self.tid = w._next_tid
        w._next_tid += 1
        self.baton = _rt.Semaphore(0)
        self.state = "ready"      # ready | blocked | done | dead
        self.pred = None
        self.deadline = None
        self.timed_out = False
        self.fires = 0
        self.enabled_since = w.now
        self.npoints = 0
        self.streak = 0
        self.what = None
        self.sleeping = False
        self.sleep_cycles = 0
        self.sleep_version = -1
        self.exc = None
        self.thread_obj = thread_obj
        self.daemon = True
        pr = w._prios
        self.prio = (pr[self.tid % len(pr)] if pr else 0) * 1000 - self.tid
        self.real = _rt.Thread(target=self._main, name=f"sim-{name}", daemon=True)
        proc.tasks.append(self)
        w.tasks.append(self)
        self.real.start()

    def _main(self):
        self.baton.acquire()
        w = self.w
        if self.state == "dead" or w.verdict is not None:
            _park()
        try:
            self.fn()
        except _ProcExit:
            pass
        except BaseException as e:  # exception escaping a simulated thread
            self.exc = e
            w.task_crashes.append((self.name, self.proc.pid, f"{type(e).__name__}: {e}", _tb_tail(e)))
        if self.state == "dead":
            _park()
        self.state = "done"
        self.fn = None            # drop references as a finished thread does (refcounting collects queues etc.)
        self.thread_obj = None
        w.version += 1
        w._leave(self, finished=True)
        # a finished task's thread ends here (only killed/blocked tasks stay parked)


class _ProcExit(BaseException):
    pass


def _park():
    _rt.Semaphore(0).acquire()


def _tb_tail(e, n=6):
    import traceback
    return [f"{f.filename.rsplit('/', 1)[-1]}:{f.lineno}:{f.name}" for f in traceback.extract_tb(e.__traceback__)[-n:]]


class World:
    def __init__(self, schedule=None, faults=None, cap=STEP_CAP):
        self.now = 0.0
        self.version = 0
        self.steps = 0
        self.decision_no = 0
        self.cap = cap
        self.tasks = []
        self._next_tid = 0
        self.procs = {}
        self._next_pid = 5000
        self.cur = None
        self.verdict = None       # None while running; quiescent|livelock|inconclusive|harness
        self.verdict_detail = None
        self.done_sem = _rt.Semaphore(0)
        self.task_crashes = []
        self.fatal = None
        self.schedule = schedule or {"kind": "pb", "preempt": []}
        self._pre = {int(k): int(c) for k, c in self.schedule.get("preempt", [])}
        self._pct = self.schedule.get("kind") == "pct"
        self._prios = list(self.schedule.get("prios", [])) if self._pct else []
        self._changes = set(int(x) for x in self.schedule.get("changes", [])) if self._pct else set()
        self._low = -1
        self._rw = list(self.schedule.get("choices", []))
        self._rw_i = 0
        self._burst = 0
        self._rw_cycle = int(self.schedule.get("cycle", 0))
        self.faults = list(faults or [])
        self.spawn_count = 0
        self.events = []          # (step, kind, data)
        self.hist = {}
        self.timers_fired = 0
        self.preemptions = 0
        self.excluded = {}
        self.atomic_depth = 0
        self.atomic_owner = None
        self.mgmt_probe_atomic = False
        self.sems = {}            # name -> kernel semaphore
        self.sem_release_log = []
        self.pipes = []
        self.gates = {}
        self.root = Proc(self, 1000, None, "MainProcess")
        self.procs[1000] = self.root
        self.timer_fire_hook = None   # callable(task) -> bool : may veto firing (known-finding exclusion)
        self.kill_veto = None         # callable(proc) -> reason|None
        self.unpickle_proc = None
        self._v_seen = -1
        self._v_step = 0
        self._vetoed = 0

    # ------------------------------------------------------------------ helpers
    def ev(self, kind, **data):
        self.events.append((self.steps, kind, data))

    def count(self, key, n=1):
        self.hist[key] = self.hist.get(key, 0) + n

    def check_alive(self):
        """Called at the top of every simulated operation."""
        if W is not self or self.verdict is not None:
            me = _rt.current_thread()
            for t in self.tasks:
                if t.real is me:
                    _park()
            raise StaleWorld()

    # ------------------------------------------------------------------ tasks
    def spawn(self, proc, name, fn, thread_obj=None):
        t = Task(self, proc, name, fn, thread_obj)
        self.version += 1
        return t

    def new_proc(self, parent, name):
        pid = self._next_pid
        self._next_pid += 1
        p = Proc(self, pid, parent, name)
        p.spawn_index = self.spawn_count
        self.spawn_count += 1
        for f in self.faults:
            if f["worker"] == p.spawn_index and p.fault_at is None:
                p.fault_at = (int(f["at"]), f["cause"])
        self.procs[pid] = p
        self.version += 1
        return p

    # ------------------------------------------------------------------ main entry
    def run(self, user_fns, watchdog_s=120.0):
        """user_fns: list of (name, callable) run as tasks of the root process."""
        global W
        W = self
        for name, fn in user_fns:
            t = self.spawn(self.root, name, fn)
            t.daemon = False
        self._dispatch(None)
        if not self.done_sem.acquire(timeout=watchdog_s):
            self.verdict = "harness"
            self.verdict_detail = "real-time watchdog expired (harness bug or runaway pure-Python loop)"
        W = None
        return self.verdict

    def stop(self, verdict, detail=None):
        if self.verdict is None:
            self.verdict = verdict
            self.verdict_detail = detail
            self.done_sem.release()
        me = _rt.current_thread()
        for t in self.tasks:
            if t.real is me:
                if t.state == "done":
                    return
                _park()

    # ------------------------------------------------------------------ scheduling points
    def sched_point(self):
        """A non-blocking scheduling point of the current task."""
        self.check_alive()
        t = self.cur
        if t is None or t.real is not _rt.current_thread():
            raise HarnessBug("sched_point from a thread that does not hold the baton")
        t.npoints += 1
        self.steps += 1
        if self.steps > self.cap:
            self.stop("inconclusive", "step cap")
        p = t.proc
        if p.fault_at is not None and t is p.main and t.npoints >= p.fault_at[0]:
            cause = p.fault_at[1]
            reason = self.kill_veto(p, t) if self.kill_veto else None
            if reason is None and self.atomic_depth == 0:
                p.fault_at = None
                self.kill_proc(p, cause, injected=True)   # never returns for t
            elif reason is not None:
                self.excluded[reason] = self.excluded.get(reason, 0) + 1
        if self.atomic_depth:
            return
        if self.version != self._v_seen:
            self._v_seen = self.version
            self._v_step = self.steps
        if self._pct:
            return self._pct_point(t)
        c = self._choice()
        if c is None:
            t.streak += 1
            if t.streak < STREAK_MAX:
                return
            # fairness of the default policy: a task that never blocks must not starve the others
            t.streak = 0
            t.enabled_since = self.now
            others = [a for a in self._actions(t) if a[1] is not t]
            if not others:
                if self.steps - self._v_step > SPIN_LIVELOCK:
                    self.cur = None
                    self.stop("livelock", [f"{t.name}@{t.proc.pid}:spinning:{where(t)}"])
                return
            runs = [a for a in others if a[0] == "run"]
            if not runs:
                return
            self._perform(runs[0], t)
            return
        t.streak = 0
        t.enabled_since = self.now
        acts = self._actions(t)
        if len(acts) <= 1:
            return
        a = self._pick(acts, c)
        if a is None or a[1] is t:
            return
        self.preemptions += 1
        t.enabled_since = self.now
        self._perform(a, t)

    def _pct_point(self, t):
        """PCT-style priority scheduling: the enabled task of highest priority runs; at the drawn change points (and
        after STREAK_MAX points without blocking) the current task drops below every other priority."""
        d = self.decision_no
        self.decision_no += 1
        t.streak += 1
        if d in self._changes or t.streak >= STREAK_MAX:
            if t.streak >= STREAK_MAX and self.steps - self._v_step > SPIN_LIVELOCK and \
                    not [a for a in self._actions(t) if a[1] is not t]:
                self.cur = None
                self.stop("livelock", [f"{t.name}@{t.proc.pid}:spinning:{where(t)}"])
            t.streak = 0
            t.prio = self._low * 1000 - t.tid
            self._low -= 1
        runs = [a for a in self._actions(t) if a[0] == "run"]
        best = max(runs, key=lambda a: a[1].prio) if runs else None
        if best is None or best[1] is t:
            return
        self.preemptions += 1
        t.enabled_since = self.now
        self._perform(best, t)

    def _choice(self):
        d = self.decision_no
        self.decision_no += 1
        if self._burst:
            self._burst -= 1
            return -1                 # timer burst in progress: keep firing eligible timers
        if self._pre:
            c = self._pre.get(d)
            if c is not None:
                if c <= -50:
                    self._burst = 10  # from here on, the next decisions fire every eligible timer ("all at once")
                    return -1
                return c
        if self._rw_i < len(self._rw):
            c = self._rw[self._rw_i]
            self._rw_i += 1
            return c
        if self._rw and self._rw_i < self._rw_cycle:
            c = self._rw[self._rw_i % len(self._rw)]      # cyclic random walk: a short drawn list drives a long run
            self._rw_i += 1
            return c
        return None

    @staticmethod
    def _pick(acts, c):
        """c >= 0: index into the canonical action list; c < 0: the (-c-1)-th eligible timer if any (timer-eager
        decisions let idle timeouts expire while other tasks are still runnable), else the default."""
        if c >= 0:
            return acts[c % len(acts)]
        fires = [a for a in acts if a[0] == "fire"]
        if not fires:
            return None
        return fires[(-c - 1) % len(fires)]

    def block_until(self, pred, timeout=None, what="", sleep=False):
        """Block the current task until pred() holds (True) or its timer is fired (False)."""
        self.sched_point()
        t = self.cur
        if not sleep and pred():
            return True
        if timeout is not None and timeout <= 0:
            return False
        t.state = "blocked"
        t.pred = pred
        t.what = what
        t.deadline = None if timeout is None else self.now + timeout
        t.timed_out = False
        t.enabled_since = None
        t.sleeping = sleep
        self._leave(t)
        t.pred = None
        t.what = None
        t.sleeping = False
        if t.timed_out:
            t.timed_out = False
            t.deadline = None
            return False
        t.deadline = None
        return True

    def sleep(self, d):
        t = self.cur
        if t.sleep_version == self.version:
            t.sleep_cycles += 1
        else:
            t.sleep_cycles = 0
            t.sleep_version = self.version
        self.block_until(lambda: False, timeout=max(d, 1e-9), what=f"sleep({d:g})", sleep=True)

    # ------------------------------------------------------------------ dispatcher
    def _enabled_tasks(self):
        out = []
        for u in self.tasks:
            if u.state == "ready":
                if u.enabled_since is None:
                    u.enabled_since = self.now
                out.append(u)
            elif u.state == "blocked":
                if u.pred is not None and not u.sleeping and u.pred():
                    if u.enabled_since is None:
                        u.enabled_since = self.now
                    out.append(u)
                else:
                    u.enabled_since = None
        return out

    def _actions(self, cur):
        """Canonical list of enabled actions: ('run', task) for runnable tasks (current first, then
        round-robin order), then ('fire', task) for eligible timers by deadline."""
        en = self._enabled_tasks()
        base = cur.tid if cur is not None else -1
        en.sort(key=lambda u: ((u.tid - base) % 1000003))
        acts = [("run", u) for u in en]
        horizon = None
        for u in en:
            lim = u.enabled_since + T_FAIR
            if horizon is None or lim < horizon:
                horizon = lim
        timers = [u for u in self.tasks if u.state == "blocked" and u.deadline is not None and u not in en]
        timers.sort(key=lambda u: (u.deadline, u.tid))
        self._vetoed = 0
        # a due timer is served within T as well: the clock never moves past (earliest pending deadline + T);
        # established pollers (re-arming 1 ms sleeps that saw no state change) do not hold the clock back
        steady = [u.deadline for u in timers if not (u.sleeping and u.sleep_cycles >= POLL_JUMP)]
        tlimit = (min(steady) + T_FAIR) if steady else None
        for u in timers:
            if tlimit is not None and u.deadline > max(self.now, tlimit):
                continue
            if u.deadline <= self.now or horizon is None or u.deadline <= horizon:
                if self.timer_fire_hook is not None:
                    reason = self.timer_fire_hook(u)
                    if reason is not None:
                        self.excluded[reason] = self.excluded.get(reason, 0) + 1
                        self._vetoed += 1
                        continue
                acts.append(("fire", u))
        return acts

    def _leave(self, t, finished=False):
        """The current task cannot continue (blocked or finished): pick the next action."""
        self.steps += 1
        if self.steps > self.cap:
            self.stop("inconclusive", "step cap")
        self._dispatch(t, finished)

    def _dispatch(self, t, finished=False):
        acts = self._actions(t)
        if not acts:
            self.cur = None
            self.stop("excluded" if self._vetoed else "quiescent")
            return
        runs = [a for a in acts if a[0] == "run"]
        if self._pct:
            c = None
            if runs:
                runs = [max(runs, key=lambda a: a[1].prio)]
        else:
            c = self._choice()
        a = self._pick(acts, c) if c is not None else None
        if a is not None:
            pass
        elif runs:
            a = runs[0]
        else:
            a = self._default_timer(acts)
            if a is None:
                self.cur = None
                self.stop("livelock", self._describe_pollers())
                return
        self._perform(a, t, finished)

    def _default_timer(self, acts):
        fires = [a for a in acts if a[0] == "fire"]
        first = fires[0]
        if not (first[1].sleeping and first[1].sleep_cycles >= POLL_JUMP):
            return first
        for a in fires:
            u = a[1]
            if not (u.sleeping and u.sleep_cycles >= POLL_JUMP):
                return a  # clock jump over pollers
        # only pollers left
        if all(a[1].sleep_cycles >= POLL_LIVELOCK for a in fires):
            # anything else that could ever change what they read?
            others = [u for u in self.tasks if u.state == "blocked" and u.deadline is not None
                      and not u.sleeping]
            if not others:
                return None
        return first

    def _describe_pollers(self):
        return [f"{u.name}@{u.proc.pid}:{u.what}:{where(u)}" for u in self.tasks
                if u.state == "blocked" and u.sleeping]

    def _perform(self, a, t, finished=False):
        kind, u = a
        if kind == "fire":
            if u.deadline > self.now:
                self.now = u.deadline
            u.timed_out = True
            u.fires += 1
            self.timers_fired += 1
            self.ev("fire", task=u.name, pid=u.proc.pid, what=u.what, now=self.now,
                    pending=(self.pending_probe() if self.pending_probe is not None else None))
        u.state = "ready"
        self.cur = u
        if u is t:
            return
        u.baton.release()
        if t is None:
            return
        if finished or t.state in ("done", "dead"):
            return  # thread ends (or parks) in the caller
        t.baton.acquire()
        if t.state == "dead" or self.verdict is not None:
            _park()

    # ------------------------------------------------------------------ processes
    def _close_proc_fds(self, p):
        for c in list(p.fds):
            c._kernel_close()
        p.fds.clear()

    def _proc_exit(self, p, code):
        """Normal end of a process (return / SystemExit / uncaught exception)."""
        p.alive = False
        p.exitcode = code
        for u in p.tasks:
            if u.state not in ("done",) and u is not self.cur:
                u.state = "dead"
        self._close_proc_fds(p)
        self.version += 1
        self.ev("exit", pid=p.pid, code=code, pending=(self.pending_probe() if self.pending_probe is not None else None))

    def kill_proc(self, p, cause, injected=False, by=None):
        """Abrupt death. cause: negative int = signal, positive/zero = os._exit(n)."""
        if not p.alive:
            return
        t = self.cur
        here = None
        if p.main is not None:
            here = where(p.main, full=True)
        p.alive = False
        p.exitcode = cause
        mip = p.msg_in_progress
        partial = None
        if mip is not None and mip[0]._pipe is not None:
            partial = [mip[0]._pipe.written - mip[1], mip[2] + 4]   # bytes of the current message already in the pipe
        p.death = {"pid": p.pid, "cause": cause, "injected": injected, "by": by, "step": self.steps,
                   "where": here, "spawn_index": p.spawn_index, "partial_msg": partial,
                   "sems_held": sorted(k.name for k in self.sems.values() if any(h[0] == p.pid for h in k.holders))}
        if self.on_death is not None:
            self.on_death(p)
        for u in p.tasks:
            if u.state != "done":
                u.state = "dead"
        self._close_proc_fds(p)
        self.version += 1
        self.ev("death", **{k: v for k, v in p.death.items() if k != "where"}, where=here and here[:3])
        if t is not None and t.proc is p:
            self._leave(t, finished=True)
            _park()

    on_death = None
    pending_probe = None
    sample_registered = None


def where(task, full=False):
    """Innermost loky/stdlib-mp frames of a parked task: list of 'file:function:srcline' (innermost first)."""
    fr = sys._current_frames().get(task.real.ident)
    out = []
    import linecache
    while fr is not None:
        fn = fr.f_code.co_filename
        if "/sim/" not in fn and "/vlib/" not in fn and "threading.py" not in fn:
            short = fn.rsplit("/", 1)[-1]
            if full:
                src = linecache.getline(fn, fr.f_lineno).strip()
                out.append(f"{short}:{fr.f_code.co_name}:{src}")
            else:
                out.append(f"{short}:{fr.f_code.co_name}")
        fr = fr.f_back
    if full:
        return out
    return out[0] if out else "?"
