"""Task bodies, arguments and initializers used by generated programs (picklable by reference)."""
import pickle
import struct

from . import world as _w


def _W():
    return _w.W


def h(token):
    return (token * 2654435761 + 12345) % 1000003


def _log(token, phase="run"):
    w = _W()
    p = w.cur.proc
    depth = p.globals.get("_CURRENT_DEPTH") if p.globals else None
    w.exec_log.append({"token": token, "pid": p.pid, "depth": depth, "marker": p.marker, "phase": phase,
                       "step": w.steps, "idx": p.spawn_index})
    w.running_bodies[p.pid] = token
    n = len(w.running_bodies)
    if n > w.max_concurrency:
        w.max_concurrency = n
    w.concurrency_samples.append((w.steps, n, len([q for q in w.procs.values() if q.alive and q is not w.root])))
    if w.sample_registered is not None:
        w.sample_registered("body")


def _done(token):
    w = _W()
    w.running_bodies.pop(w.cur.proc.pid, None)


def echo(token, *extra):
    _log(token)
    _W().sched_point()
    _done(token)
    return ("ok", token, h(token))


def add(a, b=0, c=0):
    w = _W()
    w.map_calls.append((a, b, c))
    w.sched_point()
    return ("sum", a, b, c)


class CustomErr(Exception):
    pass


EXC = {"ValueError": ValueError, "KeyError": KeyError, "SystemExit": SystemExit,
       "KeyboardInterrupt": KeyboardInterrupt, "CustomErr": CustomErr, "ZeroDivisionError": ZeroDivisionError,
       "BaseException": BaseException}


def raiser(token, excname, args):
    _log(token)
    _done(token)
    raise EXC[excname](*args)


def gate(token, g):
    w = _W()
    _log(token)
    w.block_until(lambda: w.gates.get(g, False), None, what=f"gate({g})")
    _done(token)
    return ("ok", token, h(token))


def die(token, cause):
    w = _W()
    _log(token)
    w.sched_point()
    w.kill_proc(w.cur.proc, cause, injected=False, by="task")


def big(token, n):
    _log(token)
    _done(token)
    return ("ok", token, h(token), b"x" * n)


def _boom_load(*a):
    raise RuntimeError("unloadable: fails at unpickling time")


class UnpicklableArg:
    """__reduce__ raises: the queue feeder thread fails to serialise the call item."""

    def __reduce__(self):
        raise ZeroDivisionError("unpicklable argument")


class StructErrorArg:
    def __reduce__(self):
        raise struct.error("'i' format requires -2147483648 <= number <= 2147483647")


class UnloadableArg:
    """Pickles fine, fails to load in the worker."""

    def __reduce__(self):
        return _boom_load, ()


class UnpicklableResult:
    def __reduce__(self):
        raise ZeroDivisionError("unpicklable result")


class UnloadableResult:
    """Pickles fine in the worker, fails to load in the parent."""

    def __reduce__(self):
        return _boom_load, ()


def ret_unpicklable(token):
    _log(token)
    _done(token)
    return UnpicklableResult()


def ret_unloadable(token):
    _log(token)
    _done(token)
    return UnloadableResult()


# ---------------------------------------------------------------- initializers
def init_ok(marker):
    w = _W()
    w.sched_point()
    w.cur.proc.marker = marker
    w.init_log.append((w.cur.proc.pid, marker))


def _note_init_failure():
    w = _W()
    p = w.cur.proc
    p.death = {"pid": p.pid, "cause": 0, "injected": False, "by": "initializer", "step": w.steps,
               "where": ["initializer"], "spawn_index": p.spawn_index, "partial_msg": None, "sems_held": []}
    if w.on_death is not None:
        w.on_death(p)


def init_raise():
    _note_init_failure()
    raise ValueError("initializer fails")


def init_raise_on(ks, marker):
    w = _W()
    w.sched_point()
    if w.cur.proc.spawn_index in ks:
        _note_init_failure()
        raise ValueError("initializer fails on this spawn")
    w.cur.proc.marker = marker
    w.init_log.append((w.cur.proc.pid, marker))
