"""Generic Hypothesis driver for SIM-engine properties (one call = one OS process = <=150 cases)."""
import importlib
import json
import os
import time
import threading as _rt

from vlib import common, findings, findings_sim
from vlib.common import Acc, HarnessError


THREAD_CAP = 1400     # parked threads of blocked/killed simulated tasks accumulate per shard process (pid_max is 32768)


class Falsified(Exception):
    pass


def case_summary(case):
    return {"config": case["config"], "program": case["program"], "faults": case["faults"],
            "schedule": {"kind": case["schedule"]["kind"],
                         "preempt": case["schedule"].get("preempt", [])[:6],
                         "prios": case["schedule"].get("prios"), "changes": case["schedule"].get("changes"),
                         "choices_prefix": case["schedule"].get("choices", [])[:12]}}


def generic_hist(acc, case, H):
    sk = case["schedule"]
    acc.count("policy:" + (sk["kind"] if sk["kind"] == "pct" else "default" if not sk.get("preempt") and not sk.get("choices")
                           else sk["kind"]))
    acc.count(f"user_threads:{len(case['program'])}")
    acc.count("executor:" + case["config"]["executor"])
    acc.count(f"timeout:{case['config']['timeout']}")
    acc.count("verdict:" + str(H.verdict))
    acc.count(f"faults_planned:{len(case['faults'])}")
    for ops in case["program"]:
        for op in ops:
            name = op[0]
            if name == "shutdown":
                name = "shutdown_kill" if op[2] else ("shutdown_wait" if op[1] else "shutdown_nowait")
            acc.count("op:" + name)
            if op[0] == "submit":
                acc.count("task:" + op[1]["kind"])
    acc.count("timers_fired", H.timers_fired)
    acc.count("preemptions:" + (str(H.preemptions) if H.preemptions < 4 else "4+"))
    for p in H.procs:
        d = p["death"]
        if d:
            acc.count("death_by:" + str(d.get("by") or ("injected" if d["injected"] else "task")))
            if d["injected"]:
                acc.count("death_at:" + death_class(d))
    acc.count("respawn_warnings", sum(1 for x in H.warnings if "A worker stopped" in x))
    for k, v in H.excluded.items():
        acc.count("excluded_known:" + k, v)
    b = "steps:<200" if H.steps < 200 else "steps:<1000" if H.steps < 1000 else "steps:<5000" if H.steps < 5000 else "steps:5000+"
    acc.count(b)


def death_class(d):
    """Program-point class of an injected death, from the victim's parked frames (innermost first)."""
    fr = d.get("where") or []
    txt = " | ".join(fr)
    pw = ""
    for s in fr:
        if ":_process_worker:" in s:
            pw = s.split(":", 2)[2]
            break
    if not pw:
        if "init_" in txt or "initializer" in txt:
            return "initializer"
        return "startup"
    if "initializer(" in pw:
        return "initializer"
    if "call_queue.get" in pw:
        if "_rlock" in txt and "acquire" in txt:
            return "rlock_wait"
        if "_recv" in txt or "recv_bytes" in txt or "_poll" in txt:
            return "reading"
        if "_sem.release" in txt or "self._sem" in txt:
            return "got_item_slot"
        if "loads" in txt:
            return "unpickling"
        return "get_other"
    if "call_item()" in pw:
        return "running"
    if "_sendback_result" in pw or "result_queue.put(_ResultItem" in pw:
        if "send_bytes" in txt or "_send" in txt:
            return "midsend"
        if "_wlock" in txt:
            return "wlock"
        return "pickling_result"
    if "result_queue.put(pid)" in pw:
        return "announcing"
    if "processes_management_lock" in pw:
        return "mgmt_probe"
    if "worker_exit_lock" in pw or "_python_exit" in pw:
        return "exit_wait"
    if "_get_memory_usage" in pw or "time()" in pw:
        return "memcheck"
    return "other"


def shard(prop, seed, n, tier="quick", collect=False, profile=None):
    import hypothesis
    from hypothesis import given, settings, HealthCheck, Phase
    from sim import patches, program, strategies

    mod = importlib.import_module(f"props.{prop.lower()}")
    patches.install()
    P = mod.profile(tier) if profile is None else getattr(mod, profile)(tier)
    acc = Acc()
    open_f = findings.open_for(prop)
    state = {"best": None, "first_fail_t": None, "n": 0}
    _run_case = getattr(mod, "run_case", program.run_case)
    _ghist = getattr(mod, "generic_hist", generic_hist)
    _csum = getattr(mod, "case_summary", case_summary)
    shrink_cap = float(os.environ.get("VERIF_SHRINK_CAP") or (45.0 if tier == "quick" else 180.0))

    @hypothesis.seed(seed)
    @settings(max_examples=n, database=None, deadline=None, report_multiple_bugs=False,
              suppress_health_check=list(HealthCheck),
              phases=[Phase.generate, Phase.shrink])
    @given(mod.case_strategy(P) if hasattr(mod, "case_strategy") else strategies.cases(P))
    def test(case):
        if state["first_fail_t"] is not None and (time.monotonic() - state["first_fail_t"] > shrink_cap
                                                  or _rt.active_count() > THREAD_CAP):
            return
        if _rt.active_count() > THREAD_CAP:
            state["skipped"] = state.get("skipped", 0) + 1
            return
        if hasattr(mod, "adjust"):
            case = mod.adjust(case)
        case["_exclusions"] = findings_sim.active_exclusions()
        H = _run_case(case, hooks=getattr(mod, "hooks", None))
        state["n"] += 1
        if H.verdict == "harness":
            raise HarnessError(f"SIM harness verdict: {H.verdict_detail}")
        if state["first_fail_t"] is None:
            _ghist(acc, case, H)
        if H.verdict in ("inconclusive", "excluded"):
            if state["first_fail_t"] is None:
                acc.inconclusive += 1
                acc.evaluations += 1
            return
        viols = mod.oracle(H)
        if state["first_fail_t"] is None:
            acc.case(_csum(case), mod.nontrivial(H))
            if hasattr(mod, "classify"):
                mod.classify(acc, H)
        unknown = []
        for v in viols:
            v["predicates"] = mod.predicates(H, v) if hasattr(mod, "predicates") else []
            fid = findings.match(prop, v, open_f)
            if fid is not None:
                if state["first_fail_t"] is None:
                    acc.count(f"known_hit:{fid}")
                if collect and not any(x.get("_bucket") == "KNOWN:" + fid for x in acc.violations):
                    acc.violations.append(dict(v, case=case, _bucket="KNOWN:" + fid))
            else:
                unknown.append(v)
        if unknown:
            v = unknown[0]
            if collect:
                key = f"{v['kind']}|{v.get('where')}"
                acc.count("BUCKET " + key)
                if not any(x.get("_bucket") == key for x in acc.violations):
                    acc.violations.append(dict(v, case=case, _bucket=key))
                return
            size = len(json.dumps(case))
            if state["best"] is None or size <= state["best"][0]:
                state["best"] = (size, dict(v, case=case))
            if state["first_fail_t"] is None:
                state["first_fail_t"] = time.monotonic()
            raise Falsified(v["kind"])

    try:
        test()
    except HarnessError:
        raise
    except BaseException as e:  # Falsified, Flaky, ...
        if state["best"] is None:
            raise HarnessError(f"hypothesis run failed without a recorded violation: {type(e).__name__}: {e}")
    if state["best"] is not None:
        acc.violations.append(state["best"][1])
    if state.get("skipped"):
        acc.count("cases_skipped_thread_cap", state["skipped"])
    return acc


def replay_case(mod, case, verbose=False):
    from sim import patches, program
    patches.install()
    from vlib import findings_sim
    findings_sim.FORCED = case.get("_exclusions", [] if case.get("_adjusted") else None)
    if hasattr(mod, "adjust") and not case.get("_adjusted") and "_exclusions" not in case:
        case = mod.adjust(case)
    H = getattr(mod, "run_case", program.run_case)(case, verbose=verbose, hooks=getattr(mod, "hooks", None))
    if H.verdict in ("inconclusive", "excluded", "harness"):
        if verbose:
            print("replay verdict:", H.verdict, H.verdict_detail)
        return []
    viols = mod.oracle(H)
    for v in viols:
        v["predicates"] = mod.predicates(H, v) if hasattr(mod, "predicates") else []
        v["case"] = case
    return viols


def replay_in_subprocess(prop, case):
    """Replays run in a fresh interpreter (parked threads must not accumulate in the runner)."""
    from vlib.shards import run_jobs
    acc, _ = run_jobs([{"module": "sim.run", "func": "replay_job", "kwargs": {"prop": prop, "case": case}}],
                      nproc=1, tag=f"replay-{prop}")
    return acc.violations


def replay_job(prop, case):
    mod = importlib.import_module(f"props.{prop.lower()}")
    acc = Acc()
    acc.violations = replay_case(mod, case, verbose=bool(os.environ.get("VERIF_VERBOSE")))
    acc.evaluations = 1
    return acc


def run_sim(prop, tier, seed, n_cases, per_proc=100, collect=False, profile=None, tag=None):
    from vlib.shards import run_jobs
    jobs = []
    k = 0
    left = n_cases
    while left > 0:
        m = min(per_proc, left)
        jobs.append({"module": "sim.run", "func": "shard",
                     "kwargs": {"prop": prop, "seed": common.derive_seed(seed, prop, "sim", profile, k), "n": m,
                                "tier": tier, "collect": collect, "profile": profile}})
        left -= m
        k += 1
    acc, not_run = run_jobs(jobs, tag=tag or f"sim-{prop}", timeout_s=1500 if tier == "quick" else 7200)
    if not_run:
        acc.notes.append(f"{not_run} of {len(jobs)} shard processes hit the wall-clock cap and were not counted")
    return acc
