#!/bin/sh
# selftest/run_mutants.sh [out-file]: run every mutant in mutants/ against the quick tier of its own property's check
# (scratch copy of /repo's loky package per mutant, removed afterwards). CAUGHT = the check exits 1 with a VIOLATION.
cd "$(dirname "$0")/.."
OUT="${1:-selftest/MUTANTS.txt}"
: > "$OUT"
for m in mutants/C*.patch; do
  p=$(basename "$m" | cut -c1-3)
  sh selftest/mutant.sh "$m" "$p" quick | cut -c1-220 >> "$OUT"
done
echo "caught $(grep -c '^CAUGHT' "$OUT") / missed $(grep -c '^MISSED' "$OUT") / error $(grep -c '^ERROR' "$OUT")" >> "$OUT"
