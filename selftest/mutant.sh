#!/bin/sh
# selftest/mutant.sh <patch> <Cxx> [tier]   -- apply patch to a scratch copy of /repo, run the check against it.
# prints CAUGHT (rc 1) / MISSED (rc 0) / ERROR (other). The copy is removed afterwards. Never touches /repo.
PATCH="$(readlink -f "$1")"; PROP="$2"; TIER="${3:-quick}"
HERE="$(cd "$(dirname "$0")/.." && pwd)"
SCR="$(mktemp -d /tmp/lokymut.XXXXXX)"
trap 'rm -rf "$SCR"' EXIT
cp -r /repo/loky "$SCR/loky"
( cd "$SCR" && patch -p1 -s < "$PATCH" ) || { echo "ERROR patch does not apply: $PATCH"; exit 3; }
find "$SCR" -name __pycache__ -prune -exec rm -rf {} + 2>/dev/null
OUT="$SCR/out.txt"
VERIF_SHRINK_CAP="${VERIF_SHRINK_CAP:-4}" LOKY_REPO="$SCR" VERIF_OUT_DIR="$SCR/out" "$HERE/check" "$PROP" --tier "$TIER" > "$OUT" 2>&1
RC=$?
case $RC in
  1) echo "CAUGHT $PROP $(basename "$PATCH"): $(grep -m1 'kind=' "$OUT")";;
  0) echo "MISSED $PROP $(basename "$PATCH")";;
  *) echo "ERROR rc=$RC $PROP $(basename "$PATCH"): $(tail -5 "$OUT")";;
esac
exit $RC
