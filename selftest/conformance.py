"""Primitive conformance: the SIM pipe / SemLock behave like the real OS objects on generated op sequences.

Single-task sequences (no blocking: every op is chosen so that it returns or raises immediately on both sides) are run
(a) on real `multiprocessing.connection.Connection` pairs over os.pipe() and real `_multiprocessing.SemLock` objects,
(b) on the SIM objects inside a World; return values and raised exception types are compared step by step.
A disagreement is a *harness error* (the model is wrong), never a property violation."""
import os
import sys

from vlib import common
from vlib.common import Acc, HarnessError


def _real_pipe_run(ops):
    import multiprocessing as mp
    out = []
    r, w = mp.Pipe(duplex=False)
    try:
        for op in ops:
            try:
                if op[0] == "send":
                    w.send_bytes(b"x" * op[1])
                    out.append(["ok", None])
                elif op[0] == "recv":
                    out.append(["ok", len(r.recv_bytes())])
                elif op[0] == "poll":
                    out.append(["ok", bool(r.poll(0))])
                elif op[0] == "close_w":
                    w.close()
                    out.append(["ok", None])
                elif op[0] == "close_r":
                    r.close()
                    out.append(["ok", None])
            except BaseException as e:
                out.append(["raise", type(e).__name__])
    finally:
        for c in (r, w):
            try:
                c.close()
            except Exception:
                pass
    return out


def _sim_pipe_run(ops):
    from sim import patches, prims
    from sim import world as _w
    patches.install()
    out = []

    def body():
        r, w = prims.sim_pipe()
        for op in ops:
            try:
                if op[0] == "send":
                    w.send_bytes(b"x" * op[1])
                    out.append(["ok", None])
                elif op[0] == "recv":
                    out.append(["ok", len(r.recv_bytes())])
                elif op[0] == "poll":
                    out.append(["ok", bool(r.poll(0))])
                elif op[0] == "close_w":
                    w.close()
                    out.append(["ok", None])
                elif op[0] == "close_r":
                    r.close()
                    out.append(["ok", None])
            except BaseException as e:
                if isinstance(e, (_w.HarnessBug, _w._ProcExit, _w.StaleWorld)):
                    raise
                out.append(["raise", type(e).__name__])

    wd = _w.World()
    wd.fdtable = {}
    wd.sem_created, wd.sem_unlinked, wd.tracker_log, wd.child_errors = [], [], [], []
    verdict = wd.run([("user0", body)])
    if verdict != "quiescent":
        out.append(["blocked", verdict])
    return out


def pipe_ops_ok(ops):
    """Keep only sequences that cannot block on the real pipe: recv only when a whole message is buffered or the writer
    is closed; total buffered bytes < 60000; no use of an end after... (use after close is allowed: it must raise)."""
    buffered = []
    w_open = r_open = True
    for op in ops:
        if op[0] == "send":
            if not w_open or not r_open:
                continue_ok = True      # raises on both sides
            elif sum(buffered) + op[1] + 4 * (len(buffered) + 1) > 60000:
                return False
            else:
                buffered.append(op[1])
        elif op[0] == "recv":
            if r_open and not buffered and w_open:
                return False            # would block
            if r_open and buffered:
                buffered.pop(0)
        elif op[0] == "close_w":
            w_open = False
        elif op[0] == "close_r":
            r_open = False
    return True


def _real_sem_run(kind, value, maxvalue, ops):
    import _multiprocessing
    name = f"/loky-conf-{os.getpid()}-{abs(hash((kind, value, maxvalue, tuple(map(tuple, ops))))) % 10**9}"
    out = []
    s = _multiprocessing.SemLock(kind, value, maxvalue, name, True)
    for op in ops:
        try:
            if op[0] == "acq":
                out.append(["ok", bool(s.acquire(False))])
            elif op[0] == "rel":
                s.release()
                out.append(["ok", None])
            elif op[0] == "count":
                out.append(["ok", s._count()])
            elif op[0] == "mine":
                out.append(["ok", bool(s._is_mine())])
            elif op[0] == "value":
                out.append(["ok", s._get_value()])
            elif op[0] == "zero":
                out.append(["ok", bool(s._is_zero())])
        except BaseException as e:
            out.append(["raise", type(e).__name__])
    return out


def _sim_sem_run(kind, value, maxvalue, ops):
    from sim import patches, prims
    from sim import world as _w
    patches.install()
    out = []

    def body():
        s = prims.SimSemLock(kind, value, maxvalue, "/loky-conf-x", True)
        for op in ops:
            try:
                if op[0] == "acq":
                    out.append(["ok", bool(s.acquire(False))])
                elif op[0] == "rel":
                    s.release()
                    out.append(["ok", None])
                elif op[0] == "count":
                    out.append(["ok", s._count()])
                elif op[0] == "mine":
                    out.append(["ok", bool(s._is_mine())])
                elif op[0] == "value":
                    out.append(["ok", s._get_value()])
                elif op[0] == "zero":
                    out.append(["ok", bool(s._is_zero())])
            except BaseException as e:
                if isinstance(e, (_w.HarnessBug, _w._ProcExit, _w.StaleWorld)):
                    raise
                out.append(["raise", type(e).__name__])

    wd = _w.World()
    wd.fdtable = {}
    wd.sem_created, wd.sem_unlinked, wd.tracker_log, wd.child_errors = [], [], [], []
    wd.run([("user0", body)])
    return out


def shard(seed, n):
    import hypothesis
    from hypothesis import given, settings, HealthCheck, assume, strategies as st
    common.add_repo_to_path()
    acc = Acc()
    bad = []
    pipe_op = st.one_of(st.tuples(st.just("send"), st.sampled_from([0, 1, 100, 5000, 20000])), st.tuples(st.just("recv")),
                        st.tuples(st.just("poll")), st.tuples(st.just("close_w")), st.tuples(st.just("close_r")))
    sem_op = st.sampled_from([("acq",), ("acq",), ("rel",), ("rel",), ("count",), ("mine",), ("value",), ("zero",)])

    @hypothesis.seed(seed)
    @settings(max_examples=n, database=None, deadline=None, suppress_health_check=list(HealthCheck), report_multiple_bugs=False)
    @given(st.lists(pipe_op, min_size=1, max_size=10), st.sampled_from([(0, 1, 1), (1, 1, 1), (1, 2, 2), (1, 0, 3), (1, 3, 2147483647)]),
           st.lists(sem_op, min_size=1, max_size=12))
    def t(pops, semcfg, sops):
        pops = [list(o) for o in pops]
        sops = [list(o) for o in sops]
        if pipe_ops_ok(pops):
            a, b = _real_pipe_run(pops), _sim_pipe_run(pops)
            acc.case({"pipe": pops}, len(pops) >= 3)
            if a != b:
                bad.append(f"pipe ops {pops}: real {a} sim {b}")
                raise AssertionError("pipe")
        kind, value, maxv = semcfg
        a, b = _real_sem_run(kind, value, maxv, sops), _sim_sem_run(kind, value, maxv, sops)
        acc.case({"sem": [kind, value, maxv], "ops": sops}, len(sops) >= 3)
        if a != b:
            bad.append(f"SemLock(kind={kind}, value={value}, max={maxv}) ops {sops}: real {a} sim {b}")
            raise AssertionError("sem")

    try:
        t()
    except BaseException:
        if not bad:
            raise
    if bad:
        raise HarnessError("SIM primitive model disagrees with the real OS object: " + bad[-1])
    acc.count("conformance_sequences", acc.evaluations)
    return acc


if __name__ == "__main__":
    sys.path[:0] = [common.VERIF, common.REPO, common.DEPS]
    a = shard(int(sys.argv[1]) if len(sys.argv) > 1 else 1, int(sys.argv[2]) if len(sys.argv) > 2 else 300)
    print("conformance ok:", a.evaluations, "sequences")
    os._exit(0)
