#!/venv/bin/python
"""Dev tool: run a SIM property in collect mode (never stops at a violation) and print violation buckets.
usage: tools/collect.py C01 [ncases] [seed] [profile]"""
import os, sys, json
HERE = os.path.dirname(os.path.dirname(os.path.abspath(__file__)))
sys.path[:0] = [HERE, os.environ.get("LOKY_REPO", "/repo"), os.path.join(HERE, ".deps")]
os.environ.setdefault("PYTHONHASHSEED", "0")
from sim.run import run_sim
prop = sys.argv[1]; n = int(sys.argv[2]) if len(sys.argv) > 2 else 2000; seed = int(sys.argv[3]) if len(sys.argv) > 3 else 1
profile = sys.argv[4] if len(sys.argv) > 4 else None
acc = run_sim(prop, "quick", seed, n, collect=True, profile=profile, tag="collect")
print("evaluations", acc.evaluations, "nontrivial", len(acc.nontrivial), "inconclusive", acc.inconclusive)
for k, v in sorted(acc.hist.items()):
    print(f"  {k}: {v}")
os.makedirs("/tmp/collect", exist_ok=True)
seen = set()
for i, v in enumerate(acc.violations):
    if v["_bucket"] in seen: continue
    seen.add(v["_bucket"])
    p = f"/tmp/collect/{prop}-{len(seen)}.json"
    json.dump(v["case"], open(p, "w"))
    print("BUCKET", v["_bucket"], "->", p, "\n    ", v["detail"][:600])
