#!/bin/sh
# tools/runall.sh [tier] [seed] : run every registered check once, print rc and the summary line (dev convenience)
TIER="${1:-quick}"; SEED="${2:-1}"
cd "$(dirname "$0")/.."
for p in $(python3 -c "import json;print(' '.join(c['property_id'] for c in json.load(open('MANIFEST.json'))['checks']))"); do
  t0=$(date +%s)
  VERIF_SEED=$SEED ./check $p --tier $TIER > /tmp/runall_$p.txt 2>&1; rc=$?
  echo "$p rc=$rc $(( $(date +%s) - t0 ))s $(grep -E 'tier=' /tmp/runall_$p.txt | cut -c1-140) $(grep -c KNOWN-FINDING /tmp/runall_$p.txt) known $(grep -E 'kind=' /tmp/runall_$p.txt | head -1 | cut -c1-200)"
done
