#!/bin/sh
# tools/seed_vs_checks.sh <Cxx> <A|B> <check ids...>  -- run the given checks against the seeded change (scratch copy)
P="$1"; X="$2"; shift 2
D=${SEED_ROOT:-/tmp/seed}/$P/verify_$X/patch_on_head.diff
[ -s "$D" ] || D=/verif/seeded/$P-$X/patch.diff
for c in "$@"; do
  r=$(VERIF_SHRINK_CAP=3 sh /verif/selftest/mutant.sh "$D" "$c" quick | cut -c1-300)
  echo "SEED $P/$X vs $c: $r"
done
