#!/usr/bin/env python3
"""Regenerate MANIFEST.json from the table below and validate it (python3-vt tools/mkmanifest.py)."""
import json
import os
import sys

HERE = os.path.dirname(os.path.dirname(os.path.abspath(__file__)))
BASE_CMD = ("cd /repo && env -u LOKY_VERIF /venv/bin/python -m pytest -ra -q -p no:cacheprovider --timeout=900 "
            "--continue-on-collection-errors --junitxml=/tmp/loky_baseline_off.junit.xml")

CHECKS = {
    # id: (engine, technique, level text, level note, design ref)
    "C17": ("PURE", "exhaustive grid enumeration + Hypothesis numeric tails against an independent reference formula "
                    "(inputs substituted in the module namespace)",
            "Every point of a 1.2e5-point configuration grid plus sampled numeric tails agree with the statement's "
            "formula (value on two consecutive calls and number of warnings). Exploration, exhaustive on the grid; "
            "right level because the function is a pure formula over substitutable inputs.",
            "linux code path only; inputs are substituted at the names the function reads them through; "
            "quota < 2**40", "DESIGN.md §6 C17"),
    "C01": ("SIM", "Hypothesis-generated (program, schedule, crash points, timer firings) run on loky's real code over a "
                   "simulated kernel; oracle = history invariant (quiescent, every call returned, every future done, nothing "
                   "left running after release, no exception escaping a management thread); systematic single-preemption / "
                   "PCT / timer-burst sweeps over generated small programs and a seed corpus; known findings excluded by "
                   "construction and replayed; primitive conformance self-test of the SIM kernel against the real OS objects",
            "Bounded liveness by generated-schedule search: thousands of distinct (program, schedule, fault) cases per run, "
            "each run to quiescence under a deterministic scheduler that owns every blocking point, timer and crash "
            "placement. Exploration only; it is the right level because the property quantifies over schedules and crash "
            "points that only a harness owning the schedule can enumerate, and absence cannot be shown by this family.",
            "trusted: the SIM kernel model (DESIGN.md App. A), fairness bound T=1 s, no preemption between pure-Python "
            "statements; <=4 workers, <=3 user threads, <=2 deaths; placements of 6 open known findings are excluded",
            "DESIGN.md §2, §6 C01"),
    "C02": ("SIM", "Hypothesis-generated crash placement (k-th worker, n-th scheduling point, cause) + schedules on the "
                   "simulated kernel; oracle = snapshot-at-death history invariant (kept outcomes, broken-pool errors naming "
                   "exit codes, refused probe submit, all workers dead and joined); plus generated fault plans (kill/exit at 7 worker "
                   "fault points x n-th hit x cause) on real processes with LOKY_VERIF=1",
            "Every generated death point x cause x schedule is run to quiescence and the whole-pool outcome is compared "
            "with the statement; the histogram death_at:* shows the program-point classes reached. Exploration.",
            "SIM kernel model; real signals/descendant killing are not simulated (kill_process_tree is substituted); "
            "placements of open findings F-e/F-f/F-i/F-j excluded", "DESIGN.md §6 C02"),
    "C03": ("SIM", "Hypothesis cases (submit/cancel/map from 1-3 threads, idle timeouts, resizes) on the simulated kernel with "
                   "an execution log; oracle = own-token value, <=1 execution, 0 after cancel()==True, map == builtin map; "
                   "plus pure Hypothesis differential of the chunking helpers vs builtin map",
            "Differential against builtin map and an execution-count invariant over generated histories and schedules. "
            "Exploration.", "fault-free histories only (a death legitimately leaves a task half-run); SIM kernel model",
            "DESIGN.md §6 C03"),
    "C04": ("SIM", "Hypothesis cases mixing healthy tasks with raising / unpicklable-argument / struct.error / unpicklable-"
                   "result tasks and raising callbacks on small call queues; oracle = per-future own outcome with "
                   "_RemoteTraceback cause, no broken-pool error anywhere, probe burst of capacity+2 completes",
            "Containment checked on every sibling future and on the slot accounting (probe burst) for every generated mix, "
            "position and schedule. Exploration.",
            "exception classes that round-trip through pickle (precondition of the statement); SIM kernel model",
            "DESIGN.md §6 C04"),
    "C05": ("SIM", "Hypothesis cases ending in shutdown(wait=True/False) / del / interpreter exit placed anywhere by the "
                   "generated schedule, idle timers adversarial; oracle = all prior futures own outcome, no broken flag, all "
                   "workers exit 0 and joined, manager ended, later submit raises ShutdownExecutorError",
            "Drain-and-leave-nothing invariant evaluated at quiescence over generated shutdown points and schedules. "
            "Exploration.",
            "SIM kernel model; open findings F-a (collected executor + all workers idle out) and F-i excluded by "
            "construction", "DESIGN.md §6 C05"),
    "C06": ("SIM", "Hypothesis cases with never-ending (gate) tasks and a forced shutdown (shutdown(kill_workers=True) or "
                   "get_reusable_executor(kill_workers=True) with changed arguments) placed anywhere by the generated schedule; "
                   "oracle = the call returns, every unfinished future has ShutdownExecutorError or its own outcome, no worker "
                   "alive, all joined",
            "Logical promptness (returns although tasks never end), totality and explicitness checked at quiescence over "
            "generated pool states and schedules. Exploration.",
            "SIM part: kill_process_tree is substituted; REAL part: generated task trees (subprocesses, nested executors, finished and "
            "running tasks), with and without psutil, fault point kill_tree.listed; every recorded pid must be gone",
            "DESIGN.md §6 C06, §11"),
    "C07": ("SIM", "Hypothesis cases with worker timeouts down to 0 and generated memory readings; idle-timer expiry is a "
                   "scheduler action (timer-eager / PCT / preemption-bounded / random-walk policies); oracle = never broken, "
                   "exactly-once execution with own outcome, exit codes 0, all futures done",
            "Every expiry instant the scheduler can choose relative to dispatch, exit announcements, respawn, resize and "
            "shutdown is a generated input; invariants are evaluated on the full history. Exploration.",
            "SIM kernel model, fairness bound T; open finding F-a (executor collected with work pending) excluded by "
            "construction", "DESIGN.md §6 C07"),
    "C08": ("SIM", "Hypothesis cases; state-by-state sampling of executing bodies and registered workers against the largest "
                   "max_workers in force (reference computed from the call history), plus a delivery profile observing exactly "
                   "max_workers concurrent never-ending tasks after the system settled",
            "Invariant sampled at every body start / spawn over generated histories of submits, timeouts, respawns and "
            "resizes; delivery observed at a settled point. Exploration.",
            "SIM kernel model; reads len(executor._processes) (named in the property's observe_at)", "DESIGN.md §6 C08"),
    "C09": ("SIM", "Hypothesis-generated sequential histories of get_reusable_executor calls with crashes/shutdowns/idle "
                   "periods against a sequential reference model of instance identity, plus multi-thread races on max_workers; "
                   "oracle = identity rule, strictly increasing executor_id, requested size, previous workers gone, work done",
            "Model-based check of the singleton factory over generated histories and schedules. Exploration.",
            "SIM kernel model; context/env/reducers arguments are not varied (timeout and initializer are); REAL part: the same "
            "sequential histories on real processes, including idle workers killed from outside, judged by the same reference model",
            "DESIGN.md §6 C09, §11"),
    "C10": ("SIM", "Hypothesis-generated resize histories (old,new in [1..4]^2, in-flight work, timeouts down to 0, 0-1 deaths) "
                   "under PCT / preemption-bounded / random-walk schedules; oracle = call returns (deadlock/livelock verdicts), "
                   "prior work completes, live workers == new and min(old,new) previous pids kept when undisturbed",
            "Termination (exact livelock detection on the polling loops), work preservation and survivor identity over "
            "generated timer/death placements inside _resize. Exploration.",
            "SIM kernel model; livelock verdict = only pollers runnable and nothing they poll can change; REAL part: the resizing thread "
            "is delayed at fault points (resize.*) while workers idle out or a new worker dies at start-up", "DESIGN.md §6 C10, §11"),
    "C14": ("SIM", "Hypothesis-generated actor programs on loky's Lock/RLock/Semaphore/BoundedSemaphore/Condition/Event over "
                   "the simulated named-semaphore table, actors spread over simulated processes (pickled copies), timed waits "
                   "fired anywhere by cyclic random-walk / timer-eager / PCT schedules; oracles = occupancy invariant, "
                   "sequential reference model for misuse, Condition wake-up accounting, Event linearised along lock-release order",
            "Contracts evaluated over generated interleavings of loky's real synchronize.py code down to the individual "
            "semaphore operation. Exploration.",
            "the SemLock model re-implements _multiprocessing.SemLock (semaphore.c semantics, DESIGN.md App. A); real "
            "sem_timedwait races are modelled as 'timer fired => acquire failed'; open finding F-b (lost notify, CPython's "
            "algorithm) is excluded by construction and replayed", "DESIGN.md §6 C14"),
    "C11": ("PURE", "Hypothesis-generated request byte streams fed to the real resource_tracker.main() loop in-process, "
                    "compared with an independent reference model of the refcount law (exact cleanup sequence, end-of-life "
                    "sweep multiset + folders-last order, error count, leak warnings); Atheris coverage-guided fuzzing of the "
                    "same target/oracle in the thorough tier; generated sequences against a real tracker process and real "
                    "files/folders",
            "Model-based differential over generated request sequences including malformed input; exploration (30k "
            "streams quick, 400k + 1.2M fuzz executions thorough).",
            "substituted in the tracker module namespace: signal, sys, open, _CLEANUP_FUNCS; the reference model encodes the "
            "line protocol named in the property's anchors", "DESIGN.md §6 C11"),
    "C16": ("PURE", "Hypothesis-generated non-importable functions/closures/classes/instances (exec of generated source), "
                    "keep_wrapper, 1-3 plain-pickle round trips, wrapper-of-wrapper; oracle = differential with the unwrapped "
                    "object (callability, calls, attributes, methods, arrival wrapped iff keep_wrapper)",
            "Behavioural differential on generated objects and arguments. Exploration.",
            "behaviour sampled on 3 argument tuples per object; objects restricted to what cloudpickle serialises",
            "DESIGN.md §6 C16"),
    "C15": ("PURE", "Hypothesis-generated object graphs (bound/class methods, method descriptors, nested partials with keywords, "
                    "containers) round-tripped through loky's dumps/loads under both pickler back-ends and compared "
                    "behaviourally; generated sequences of reducer-bearing operations with registry snapshots as invariant; "
                    "generated two-executor programs on real processes observing where arguments/results arrive reduced and "
                    "which pickler each worker uses",
            "Round-trip + non-interference (metamorphic) relations over generated graphs and histories; the per-executor "
            "scope and the pickler-at-submit clause are observed end-to-end on real worker processes. Exploration.",
            "objects importable by reference; REAL part limited to 2 plain executors with 1-2 workers", "DESIGN.md §6 C15"),
    "C19": ("PURE", "exhaustive grid over (MAX_DEPTH, depth, start method) for _check_max_depth and the constructor vs the "
                    "statement; SIM histories (timeouts, respawns, memory-leak exits, resizes) with generated parent depth "
                    "checking every execution's logged depth; Hypothesis-generated recursive driver programs on real processes "
                    "under LOKY_MAX_DEPTH in {1,2,3,0,-1}",
            "Exact bound: exhaustive on the 360-point grid (exhaustive for that part), exploration for the SIM histories "
            "and the real recursion trees.",
            "PURE substitutes MAX_DEPTH/_CURRENT_DEPTH in the module; REAL recursion limited to 4 levels", "DESIGN.md §6 C19"),
    "C18": ("REAL", "Hypothesis-generated driver programs run by a fresh interpreter on real processes: extra parent descriptors "
                    "(kind, inheritability, numbering), env overlays, LokyProcess exit codes/signals, initializer histories "
                    "(idle-timeout respawn, memory-leak exit, resize, failing k-th spawn), a guard-less user script; oracles on "
                    "/proc/self/fd link targets, environment at start-up/import/task time, exitcode/sentinel, per-task "
                    "initialisation markers; plus a pure Hypothesis check of the initializer chaining helpers",
            "Universally quantified negatives (no stray descriptor, no uninitialised worker) sampled over generated host "
            "states and histories on the real OS. Exploration.",
            "Linux /proc; default loky start method; 64 driver runs in the quick tier", "DESIGN.md §6 C18"),
    "C20": ("REAL", "Hypothesis-generated lists of executor lifecycles repeated k times in a fresh driver interpreter; "
                    "metamorphic oracle: descriptor/thread/child/named-semaphore counts after repetitions 2..k equal those "
                    "after repetition 1 (a leak must persist after a settle loop and grow with every repetition)",
            "Cumulative-leak relation over generated lifecycle histories on real processes. Exploration.",
            "a constant one-off excess is attributed to first-use initialisation (trackers, atexit hooks)", "DESIGN.md §6 C20"),
    "C12": ("REAL", "Hypothesis-generated process trees (shape, start methods, order and cause of each member's death, signals "
                    "to the tracker at generated moments, tracker kills) run on real processes; oracle on tracker pid and pipe "
                    "identity per member, tracker liveness under SIGINT/SIGTERM, existence of registered files while any member "
                    "lives and their removal after the last one, relaunch with warning after SIGKILL of the tracker",
            "Sharing, end-of-life timing and self-healing observed on generated trees and fault sequences on the real OS. "
            "Exploration.",
            "signals during the tracker's own start-up are placed by timing only (no hook inside the tracker start-up); "
            "trees up to depth 3 / 5 members", "DESIGN.md §6 C12"),
    "C13": ("REAL", "Hypothesis-generated histories of creating/discarding loky locks, semaphores, conditions, events, queues "
                    "and executors (incl. copies sent to children, worker crashes) ended by exit / exception / os._exit / broken "
                    "pool / SIGKILL of the parent at a generated op, on real processes; oracle on the /dev/shm "
                    "sem.loky-<pid>-* namespace after del+gc and after the tree and tracker ended, and on tracker leak reports",
            "Namespace-returns-to-prior-content invariant over generated histories and termination paths on the real OS. "
            "Exploration.",
            "abrupt parent endings (SIGKILL, os._exit) are generated without executors: orphaned workers outlive such a "
            "parent by design and keep the tracker alive", "DESIGN.md §6 C13"),
}

NOT_YET = {}


def main():
    checks = []
    for pid, (engine, tech, text, note, ref) in sorted(CHECKS.items()):
        checks.append({
            "property_id": pid,
            "quick_cmd": f"./check {pid} --tier quick",
            "thorough_cmd": f"./check {pid} --tier thorough",
            "evidence_file": f"evidence/{pid}.json",
            "replay_cmd_template": f"./check {pid} --replay {{path}}",
            "engine": engine,
            "level_claimed": {"category": "exploration", "text": text, "design_ref": ref},
            "level_note": note,
            "technique": tech,
        })
    props = [json.loads(l)["id"] for l in open(os.path.join(HERE, "properties.jsonl"))]
    na = [{"property_id": p, "reason": NOT_YET.get(p, "check not built yet in this tree (work in progress; see DESIGN.md §8)")}
          for p in props if p not in CHECKS]
    hooks_commits = []
    hc = os.path.join(HERE, "hooks_commits.txt")
    if os.path.exists(hc):
        hooks_commits = [l.split()[0] for l in open(hc) if l.strip()]
    m = {
        "version": 1,
        "setup_cmd": "sh ./setup.sh",
        "hooks": {
            "guard": "LOKY_VERIF",
            "enable": "LOKY_VERIF=1 in the environment of the driver interpreter (pure-Python hooks, no build step); "
                      "fault plan in LOKY_VERIF_PLAN",
            "baseline_off_cmd": BASE_CMD,
            "source_commits": hooks_commits,
            "add_only": True,
        },
        "engines": [
            {"name": "PURE", "path": "props/", "serves_properties": ["C03", "C11", "C15", "C16", "C17", "C18", "C19"],
             "kind_free_text": "Hypothesis / exhaustive grids in-process on functions with substituted inputs"},
            {"name": "SIM", "path": "sim/", "serves_properties": ["C01", "C02", "C03", "C04", "C05", "C06", "C07", "C08", "C09", "C10", "C14", "C19"],
             "kind_free_text": "deterministic simulation: loky's real code objects on a simulated kernel; schedule, clock and crash points are Hypothesis-generated"},
            {"name": "REAL", "path": "real/", "serves_properties": ["C02", "C05", "C06", "C09", "C10", "C11", "C12", "C13", "C15", "C18", "C19", "C20"],
             "kind_free_text": "generated programs on real processes with env-guarded fault points and /proc observation"},
        ],
        "checks": checks,
        "not_applicable": na,
        "notes": "All commands run from /verif; ./check bootstraps .deps offline if missing. Exit 2 = harness error.",
    }
    out = os.path.join(HERE, "MANIFEST.json")
    with open(out, "w") as fh:
        json.dump(m, fh, indent=1)
    try:
        import jsonschema
        schema = json.load(open("/root/.vp/MANIFEST.schema.json"))
        jsonschema.validate(m, schema)
        print("MANIFEST.json valid;", len(checks), "checks,", len(na), "not_applicable")
    except ImportError:
        print("jsonschema not available; written without validation")


if __name__ == "__main__":
    main()
