#!/usr/bin/env python3
"""Regenerate MANIFEST.json from the table below and validate it (python3-vt tools/mkmanifest.py)."""
import json
import os
import sys

HERE = os.path.dirname(os.path.dirname(os.path.abspath(__file__)))
BASE_CMD = ("cd /repo && env -u LOKY_VERIF /venv/bin/python -m pytest -ra -q -p no:cacheprovider --timeout=900 "
            "--continue-on-collection-errors --junitxml=/tmp/loky_baseline_off.junit.xml")

CHECKS = {
    # id: (engine, technique, level text, level note, design ref)
    "C17": ("PURE", "exhaustive grid enumeration + Hypothesis numeric tails against an independent reference formula "
                    "(inputs substituted in the module namespace)",
            "Every point of a 1.2e5-point configuration grid plus sampled numeric tails agree with the statement's "
            "formula (value on two consecutive calls and number of warnings). Exploration, exhaustive on the grid; "
            "right level because the function is a pure formula over substitutable inputs.",
            "linux code path only; inputs are substituted at the names the function reads them through; "
            "quota < 2**40", "DESIGN.md §6 C17"),
}

NOT_YET = {}


def main():
    checks = []
    for pid, (engine, tech, text, note, ref) in sorted(CHECKS.items()):
        checks.append({
            "property_id": pid,
            "quick_cmd": f"./check {pid} --tier quick",
            "thorough_cmd": f"./check {pid} --tier thorough",
            "evidence_file": f"evidence/{pid}.json",
            "replay_cmd_template": f"./check {pid} --replay {{path}}",
            "engine": engine,
            "level_claimed": {"category": "exploration", "text": text, "design_ref": ref},
            "level_note": note,
            "technique": tech,
        })
    props = [json.loads(l)["id"] for l in open(os.path.join(HERE, "properties.jsonl"))]
    na = [{"property_id": p, "reason": NOT_YET.get(p, "check not built yet in this tree (work in progress; see DESIGN.md §8)")}
          for p in props if p not in CHECKS]
    hooks_commits = []
    hc = os.path.join(HERE, "hooks_commits.txt")
    if os.path.exists(hc):
        hooks_commits = [l.split()[0] for l in open(hc) if l.strip()]
    m = {
        "version": 1,
        "setup_cmd": "sh ./setup.sh",
        "hooks": {
            "guard": "LOKY_VERIF",
            "enable": "LOKY_VERIF=1 in the environment of the driver interpreter (pure-Python hooks, no build step); "
                      "fault plan in LOKY_VERIF_PLAN",
            "baseline_off_cmd": BASE_CMD,
            "source_commits": hooks_commits,
            "add_only": True,
        },
        "engines": [
            {"name": "PURE", "path": "props/", "serves_properties": ["C03", "C11", "C15", "C16", "C17", "C19"],
             "kind_free_text": "Hypothesis / exhaustive grids in-process on functions with substituted inputs"},
            {"name": "SIM", "path": "sim/", "serves_properties": ["C01", "C02", "C03", "C04", "C05", "C06", "C07", "C08", "C09", "C10", "C14", "C15", "C18", "C19"],
             "kind_free_text": "deterministic simulation: loky's real code objects on a simulated kernel; schedule, clock and crash points are Hypothesis-generated"},
            {"name": "REAL", "path": "real/", "serves_properties": ["C06", "C12", "C13", "C18", "C19", "C20"],
             "kind_free_text": "generated programs on real processes with env-guarded fault points and /proc observation"},
        ],
        "checks": checks,
        "not_applicable": na,
        "notes": "All commands run from /verif; ./check bootstraps .deps offline if missing. Exit 2 = harness error.",
    }
    out = os.path.join(HERE, "MANIFEST.json")
    with open(out, "w") as fh:
        json.dump(m, fh, indent=1)
    try:
        import jsonschema
        schema = json.load(open("/root/.vp/MANIFEST.schema.json"))
        jsonschema.validate(m, schema)
        print("MANIFEST.json valid;", len(checks), "checks,", len(na), "not_applicable")
    except ImportError:
        print("jsonschema not available; written without validation")


if __name__ == "__main__":
    main()
