#!/usr/bin/env python3
"""Copy verified seeded changes from /tmp/seed/<Cxx>/ into /verif/seeded/<Cxx>-<X>/ (patch.diff, demo.py, meta.json).
Reads /tmp/seed/verify*.txt (my own verification runs) and /tmp/seed/vs*.txt (my checks run against each seed)."""
import glob, json, os, re, shutil, sys
ROOT = os.environ.get("SEED_ROOT", "/tmp/seed")
SUFFIX = {"A": os.environ.get("SEED_A", "A"), "B": os.environ.get("SEED_B", "B")}
ver, vs = {}, {}
for f in sorted(glob.glob(ROOT + "/verify*.txt")):
    for line in open(f):
        m = re.match(r"SEED (C\d+)/([AB]): demo clean rc=(\d+), mutated rc=(\d+); tests: (.*?); unexpected failures: (.*)", line)
        if m:
            ver[(m[1], m[2])] = {"demo_clean_rc": int(m[3]), "demo_mutated_rc": int(m[4]), "tests": m[5], "unexpected_failures": m[6].strip()}
for f in sorted(glob.glob(ROOT + "/vs*.txt")):
    for line in open(f):
        m = re.match(r"SEED (C\d+)/([AB]) vs (C\d+): (CAUGHT|MISSED|ERROR)(.*)", line)
        if m:
            vs.setdefault((m[1], m[2]), {})[m[3]] = (m[4], m[5].strip()[:200])      # later files override earlier ones
for (p, x), v in sorted(ver.items()):
    ok = v["demo_clean_rc"] == 0 and v["demo_mutated_rc"] != 0 and v["unexpected_failures"] == "none"
    src = f"{ROOT}/{p}"
    dst = f"/verif/seeded/{p}-{SUFFIX[x]}"
    if not ok:
        print("REJECTED", p, x, v)
        continue
    os.makedirs(dst, exist_ok=True)
    shutil.copy(f"{src}/verify_{x}/patch_on_head.diff", f"{dst}/patch.diff")
    shutil.copy(f"{src}/seed_out/demo_{x}.py", f"{dst}/demo.py")
    am = json.load(open(f"{src}/seed_out/meta.json")).get(x, {})
    res = vs.get((p, x), {})
    meta = {"property": p, "summary": am.get("summary"), "needs_to_manifest": am.get("needs_to_manifest"),
            "files": am.get("files"), "author": "independent sub-agent given only the property text and a scratch worktree",
            "what_i_ran": {"worktree": f"scratch worktree of /repo at its current HEAD ({src}, removed afterwards)",
                           "demo": "seed_out/demo.py with PYTHONPATH=<worktree>: exit 0 on the clean tree, non-zero with patch.diff applied",
                           "tests_with_patch": "pytest tests/test_reusable_executor.py tests/test_process_executor_loky.py tests/test_worker_timeout.py"
                                               if "123 passed" in v["tests"] else v["tests"],
                           "result": v},
            "my_checks": {c: {"verdict": r[0], "first_violation": r[1]} for c, r in sorted(res.items())},
            "caught_by": sorted(c for c, r in res.items() if r[0] == "CAUGHT"),
            "missed_by": sorted(c for c, r in res.items() if r[0] == "MISSED")}
    json.dump(meta, open(f"{dst}/meta.json", "w"), indent=1)
    print("installed", p, x, "caught_by", meta["caught_by"], "missed_by", meta["missed_by"])
