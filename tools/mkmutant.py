#!/usr/bin/env python3
"""Dev tool: tools/mkmutant.py <name> <file relative to repo> <<< python-literal (old, new)
Creates mutants/<name>.patch (unified diff, -p1 relative to the repo root) from one textual replacement."""
import ast, difflib, sys
name, rel = sys.argv[1], sys.argv[2]
old, new = ast.literal_eval(sys.stdin.read())
src = open(f"/repo/{rel}").read()
assert src.count(old) == 1, f"old text occurs {src.count(old)} times"
dst = src.replace(old, new)
diff = difflib.unified_diff(src.splitlines(True), dst.splitlines(True), f"a/{rel}", f"b/{rel}")
open(f"/verif/mutants/{name}.patch", "w").write("".join(diff))
print("wrote", name)
