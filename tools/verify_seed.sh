#!/bin/sh
# tools/verify_seed.sh <Cxx> <A|B> [test files...]
# In the scratch worktree /tmp/seed/<Cxx> (moved to /repo's current HEAD): demo must pass clean, fail with the diff,
# and the given test files must pass with the diff. Prints a summary line; logs in /tmp/seed/<Cxx>/verify_<X>/.
P="$1"; X="$2"; shift 2
WT=${SEED_ROOT:-/tmp/seed}/$P; OUT=$WT/verify_$X; mkdir -p "$OUT"
cd "$WT" || exit 2
git reset -q --hard; git checkout -q --detach "$(git -C /repo rev-parse HEAD)" || exit 2
export PYTHONPATH=$WT
run_demo() { setsid -w timeout -s KILL 300 /venv/bin/python -u seed_out/demo_$X.py > "$1" 2>&1 < /dev/null; echo $?; }
c1=$(run_demo $OUT/demo_clean.txt)
if ! git apply --check seed_out/$X.diff 2>/dev/null; then
    if ! git apply --3way seed_out/$X.diff > $OUT/apply.txt 2>&1; then echo "SEED $P/$X: DIFF DOES NOT APPLY on current HEAD"; git reset -q --hard; exit 3; fi
else git apply seed_out/$X.diff; fi
git diff > $OUT/patch_on_head.diff
c2=$(run_demo $OUT/demo_mutated.txt)
tr="none"
if [ $# -gt 0 ]; then
    timeout -s KILL 3000 /venv/bin/python -m pytest -q -p no:cacheprovider --timeout=900 "$@" > $OUT/tests.txt 2>&1 < /dev/null
    tr=$(grep -E "passed|failed" $OUT/tests.txt | tail -1)
    fl=$(grep -E "^FAILED" $OUT/tests.txt | grep -vE "test_sigkill_shutdown_leaks_workers|test_cpu_count_cgroup_limit|test_no_failure_on_large_data_send" | tr '\n' ' ')
fi
git reset -q --hard
echo "SEED $P/$X: demo clean rc=$c1, mutated rc=$c2; tests: $tr; unexpected failures: ${fl:-none}"
