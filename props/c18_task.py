"""Worker-side helpers for the C18 REAL check (importable in workers)."""
import os
import sys

MARK = None


def report(keys):
    fds = {}
    for n in os.listdir("/proc/self/fd"):
        try:
            fds[n] = os.readlink(f"/proc/self/fd/{n}")
        except OSError:
            pass          # the listing's own descriptor
    from props import c18_envprobe
    return {"pid": os.getpid(), "fds": fds, "env": {k: os.environ.get(k) for k in keys},
            "env_at_import": {k: c18_envprobe.CAPTURED.get(k) for k in keys},
            "env_at_startup": (None if not hasattr(sys, "_c18_env_at_startup") else
                               {k: sys._c18_env_at_startup.get(k) for k in keys}), "mark": MARK}


def init(mark, counter_file, fail_on, memleak):
    """Initializer: numbers the spawn (atomic append), optionally fails on chosen spawn indexes, sets the marker."""
    import fcntl
    global MARK
    with open(counter_file, "a+") as fh:
        fcntl.flock(fh, fcntl.LOCK_EX)
        fh.seek(0)
        idx = len(fh.read().splitlines())
        fh.write(f"{os.getpid()}\n")
        fh.flush()
    if idx in fail_on:
        raise RuntimeError(f"initializer fails on spawn {idx}")
    if memleak:
        import loky.process_executor as pe
        pe._MAX_MEMORY_LEAK_SIZE = -10 ** 15
        pe._MEMORY_LEAK_CHECK_DELAY = 0
    MARK = mark


def whoami(i):
    return {"i": i, "pid": os.getpid(), "mark": MARK}


def exit_with(spec, ready, gate):
    import sys
    import time
    open(ready, "w").close()
    t0 = time.time()
    while not os.path.exists(gate):
        if time.time() - t0 > 60:
            os._exit(99)
        time.sleep(0.005)
    if spec["how"] == "os_exit":
        os._exit(spec["n"])
    if spec["how"] == "sys_exit":
        sys.exit(spec["n"])
    if spec["how"] == "return":
        return
    if spec["how"] == "raise":
        raise ValueError("uncaught")
    if spec.get("core"):
        # allow a core file: the wait status then carries the "core dumped" bit next to the signal number
        import resource
        try:
            hard = resource.getrlimit(resource.RLIMIT_CORE)[1]
            resource.setrlimit(resource.RLIMIT_CORE, (hard, hard))
        except (ValueError, OSError):
            pass
    os.kill(os.getpid(), spec["sig"])
    time.sleep(30)
