"""Task bodies for the C09 REAL part."""
import os


def echo(i):
    return i


def die(code):
    if code < 0:
        os.kill(os.getpid(), -code)
        import time
        time.sleep(60)
    os._exit(code)
