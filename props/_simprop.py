"""Boiler-plate shared by SIM-engine property modules."""
import importlib

from sim.run import run_sim, replay_in_subprocess, replay_case
from vlib import findings_sim

SIM_ASSUMPTIONS = [
    "SIM kernel model of pipes (64 KiB, 4 KiB atomic writes), POSIX named semaphores, processes and sentinels "
    "(DESIGN.md Appendix A); conformance of the primitives is checked by selftest/conformance.py",
    "a runnable thread/process gets the CPU within T=1 s of logical time (fairness bound on the timer adversary)",
    "scheduling points are the interactions with the simulated kernel (no preemption between two pure-Python statements)",
    "bounded exploration: quiescence = no enabled action; step cap hit = inconclusive, never a violation",
    "placements listed as open known findings are excluded from generation (counted under histograms.excluded_known:*)",
]


def install(g, ID, n_quick, n_thorough, profiles=None):
    """Defines predicates/adjust/hooks/run/replay in module namespace g (oracle/nontrivial/profile are the module's)."""

    def predicates(H, v):
        return findings_sim.predicates(H, v)

    def adjust(case):
        case, n = findings_sim.adjust_case(case)
        if n:
            case["_excluded_program"] = n
        if "post_adjust" in g:
            case = g["post_adjust"](case)
        return case

    def hooks(w, ctx):
        findings_sim.install_exclusions(w, ctx, ID)

    def _random(tier, seed):
        n = n_quick if tier == "quick" else n_thorough
        if not profiles:
            return run_sim(ID, tier, seed, n)
        acc = None
        for name, share in profiles:
            a = run_sim(ID, tier, seed, max(50, int(n * share)), profile=name, tag=f"sim-{ID}-{name}")
            if acc is None:
                acc = a
            else:
                acc.merge(a, sample_cap=8)
        return acc

    def sweep_profile(tier):
        P = dict(g["profile"](tier))
        P.update(max_threads=min(P.get("max_threads", 3), 2), max_ops=min(P.get("max_ops", 8), 5), max_workers=min(P.get("max_workers", 4), 2),
                 schedule_kinds=["default"], max_faults=min(P.get("max_faults", 0), 1), max_inflight=3, max_resizes=2)
        return P

    g.setdefault("sweep_profile", sweep_profile)

    def run(tier, seed):
        acc = _random(tier, seed)
        sw = g.get("SWEEP")
        if sw:
            from sim.sweep import run_sweep
            a = run_sweep(ID, tier, seed, sw[0] if tier == "quick" else sw[1])
            acc.merge(a, sample_cap=8)
        return acc

    def replay(case, verbose=False):
        if verbose:
            return replay_case(importlib.import_module(f"props.{ID.lower()}"), case, verbose=True)
        return replay_in_subprocess(ID, case)

    for k, v in (("predicates", predicates), ("adjust", adjust), ("hooks", hooks), ("run", run), ("replay", replay)):
        g.setdefault(k, v)
    g.setdefault("ASSUMPTIONS", SIM_ASSUMPTIONS)
    g.setdefault("ID", ID)
