"""C15 - serialisation customisation is scoped to where it was requested and is faithful (PURE + REAL)."""
import copyreg
import functools
import io
import pickle

from vlib import common
from vlib.common import Acc, HarnessError

ID = "C15"
RULE = (
    "PURE-fidelity: object graphs built from bound methods, class methods (incl. inherited), method descriptors "
    "(list.append, int.__add__, str.upper, dict.get), functools.partial with positional and keyword arguments nested up "
    "to depth 3, inside lists/tuples/dicts; loads(dumps(x)) must behave like x on generated call arguments, under both "
    "pickler back-ends. PURE-isolation: generated sequences of {dumps(obj, reducers=R), build a pickler with reducers R, "
    "register a reducer on one pickler instance, set_loky_pickler(name)}; after every step copyreg.dispatch_table, "
    "CloudPickler.dispatch_table and loky's _dispatch_table equal their initial snapshots and a dumps without reducers "
    "yields the unreduced form. REAL: two executors with generated job_reducers/result_reducers in {none, r1, r2, r3} "
    "receive interleaved submits mixed with set_loky_pickler calls; each task reports how its argument arrived and "
    "which pickler it sees; the parent sees how the result arrived. Oracle: argument reduced exactly by that executor's "
    "job reducers, result by its result reducers (default: job reducers), local dumps unaffected, worker's pickler == "
    "pickler selected when the task was submitted. Non-trivial = a graph containing a partial with keywords or a "
    "reducer-bearing step followed by a reducer-free one (PURE); two executors with different reducers, or a "
    "set_loky_pickler between submits (REAL)."
)
ASSUMPTIONS = ["objects are importable by reference (props/c15_objs.py) so both back-ends can serialise them",
               "REAL part: plain ProcessPoolExecutor, 1-2 workers, real processes; 60 s per-future timeout"]


# ----------------------------------------------------------------------------- PURE: fidelity
def _build(spec):
    from props import c15_objs as O
    k = spec[0]
    if k == "bound":
        return {"A": O.A, "B": O.B}[spec[1]](spec[2]).f
    if k == "cmeth":
        return {"A": O.A, "B": O.B}[spec[1]].h
    if k == "descr":
        return {"list.append": list.append, "int.__add__": int.__add__, "str.upper": str.upper, "dict.get": dict.get}[spec[1]]
    if k == "plain":
        return O.plain
    if k == "partial":
        return functools.partial(_build(spec[1]), *spec[2], **dict(spec[3]))
    if k == "list":
        return [_build(s) for s in spec[1]]
    if k == "tuple":
        return tuple(_build(s) for s in spec[1])
    if k == "dict":
        return {f"k{i}": _build(s) for i, s in enumerate(spec[1])}
    raise HarnessError(f"bad spec {spec}")


def _root_kind(spec):
    while spec[0] == "partial":
        spec = spec[1]
    return spec


def _invoke(obj, spec, args):
    """Behaviour of a (possibly nested) callable on generated args: returns a repr-able outcome."""
    if spec[0] in ("list", "tuple"):
        return [_invoke(o, s, args) for o, s in zip(obj, spec[1])]
    if spec[0] == "dict":
        return [_invoke(obj[f"k{i}"], s, args) for i, s in enumerate(spec[1])]
    root = _root_kind(spec)
    nfixed = 0
    s = spec
    while s[0] == "partial":
        nfixed += len(s[2])
        s = s[1]
    try:
        if root[0] == "descr":
            name = root[1]
            base = {"list.append": [[1, 2], 9], "int.__add__": [3, 4], "str.upper": ["ab"], "dict.get": [{"a": 5}, "a", 0]}[name]
            call_args = [x if not isinstance(x, list) else list(x) for x in base][nfixed:]
            r = obj(*call_args)
            return ["ret", repr(r), repr(call_args)]
        return ["ret", repr(obj(*args))]
    except Exception as e:
        return ["raise", type(e).__name__]


def fidelity_shard(seed, n):
    import hypothesis
    from hypothesis import given, settings, HealthCheck, strategies as st
    common.add_repo_to_path()
    from loky.backend import reduction

    acc = Acc()
    fails = []
    small = st.integers(-3, 9)
    leaf = st.one_of(
        st.tuples(st.just("bound"), st.sampled_from(["A", "B"]), small),
        st.tuples(st.just("cmeth"), st.sampled_from(["A", "B"])),
        st.tuples(st.just("plain")),
        st.tuples(st.just("descr"), st.sampled_from(["list.append", "int.__add__", "str.upper", "dict.get"])),
    )

    def partial_of(inner):
        def mk(i):
            if _root_kind(i)[0] == "descr":
                return st.tuples(st.just("partial"), st.just(i), st.just([]), st.just([]))
            return st.tuples(st.just("partial"), st.just(i), st.lists(small, max_size=1),
                             st.lists(st.tuples(st.sampled_from(["y", "kw1", "kw2"]), small), max_size=2, unique_by=lambda t: t[0]))
        return inner.flatmap(mk)

    callables = st.recursive(leaf, partial_of, max_leaves=3)
    graphs = st.one_of(callables, st.tuples(st.just("list"), st.lists(callables, min_size=1, max_size=3)),
                       st.tuples(st.just("tuple"), st.lists(callables, min_size=1, max_size=3)),
                       st.tuples(st.just("dict"), st.lists(callables, min_size=1, max_size=3)))

    def has_kw_partial(s):
        if s[0] == "partial":
            return bool(s[3]) or has_kw_partial(s[1])
        if s[0] in ("list", "tuple", "dict"):
            return any(has_kw_partial(x) for x in s[1])
        return False

    def canon(x):
        if isinstance(x, tuple):
            return [canon(y) for y in x]
        if isinstance(x, list):
            return [canon(y) for y in x]
        return x

    @hypothesis.seed(seed)
    @settings(max_examples=n, database=None, deadline=None, suppress_health_check=list(HealthCheck), report_multiple_bugs=False)
    @given(graphs, st.sampled_from(["cloudpickle", "pickle", "", None]), st.lists(small, min_size=1, max_size=2))
    def t(spec, backend, args):
        spec = canon(spec)
        case = {"engine": "pure-fidelity", "spec": spec, "backend": backend, "args": args}
        if not fails:
            acc.case(case, has_kw_partial(spec))
            acc.count("backend:" + str(backend))
            acc.count("root:" + spec[0])
        bad = fidelity_case(case)
        if bad:
            fails.append({"kind": bad[0], "detail": bad[1], "case": case, "where": "fidelity"})
            raise AssertionError(bad[0])

    try:
        t()
    except BaseException:
        if not fails:
            raise
    finally:
        reduction.set_loky_pickler(None)
    if fails:
        acc.violations.append(fails[-1])
    return acc


def fidelity_case(case):
    common.add_repo_to_path()
    from loky.backend import reduction
    spec, backend, args = case["spec"], case["backend"], case["args"]
    reduction.set_loky_pickler(backend)
    try:
        obj = _build(spec)
        try:
            blob = bytes(reduction.dumps(obj))
            back = reduction.loads(blob)
        except Exception as e:
            return ("round_trip_failed", f"{type(e).__name__}: {e}")
        want = _invoke(_build(spec), spec, args)
        got = _invoke(back, spec, args)
        if want != got:
            return ("behaviour_differs_after_round_trip", f"original {want} vs loads(dumps(x)) {got}")
        if spec[0] == "partial" and spec[1][0] != "partial" and isinstance(back, functools.partial):
            if dict(back.keywords) != dict(spec[3]) or list(back.args) != list(spec[2]):
                return ("partial_fields_differ", f"args {back.args} keywords {back.keywords} vs {spec[2]} {spec[3]}")
        return None
    finally:
        reduction.set_loky_pickler(None)


# ----------------------------------------------------------------------------- PURE: isolation
def _snap():
    import cloudpickle
    from loky.backend import reduction
    cp = getattr(cloudpickle.CloudPickler, "dispatch_table", None)
    return {"copyreg": dict(copyreg.dispatch_table), "cloudpickle": dict(cp) if cp is not None else None,
            "loky": dict(reduction._dispatch_table)}


def isolation_case(case):
    common.add_repo_to_path()
    import cloudpickle
    from loky.backend import reduction
    from props import c15_objs as O
    base = _snap()
    reduction.set_loky_pickler(None)
    try:
        for i, op in enumerate(case["ops"]):
            name = op[0]
            if name == "set":
                reduction.set_loky_pickler(op[1])
            elif name in ("dumps", "pickler", "instance_register"):
                key = op[1]
                reducers = None if key is None else {O.Marker: O.REDUCERS[key]}
                m = O.Marker(op[2])
                if name == "dumps":
                    back = reduction.loads(bytes(reduction.dumps(m, reducers=reducers)))
                else:
                    buf = io.BytesIO()
                    p = reduction.get_loky_pickler()(buf, reducers=reducers if name == "pickler" else None)
                    if name == "instance_register" and key is not None:
                        p.register(O.Marker, O.REDUCERS[key])
                    p.dump(m)
                    back = reduction.loads(buf.getvalue())
                want = ["marker", op[2]] if key is None else ["reduced", key, op[2]]
                if O.describe(back) != want:
                    return ("reducer_scope_violated", f"step {i} {op}: got {O.describe(back)}, expected {want}")
            now = _snap()
            for k in base:
                if now[k] != base[k]:
                    diff = {t: v for t, v in (now[k] or {}).items() if (base[k] or {}).get(t) is not v}
                    return ("global_registry_modified", f"after step {i} {op}: {k} dispatch table changed: {list(diff)[:3]}")
            # process-wide picklers are unaffected
            if not isinstance(pickle.loads(pickle.dumps(O.Marker(1))), O.Marker) or \
                    not isinstance(cloudpickle.loads(cloudpickle.dumps(O.Marker(1))), O.Marker):
                return ("process_wide_pickling_changed", f"after step {i} {op}")
        return None
    finally:
        reduction.set_loky_pickler(None)


def isolation_shard(seed, n):
    import hypothesis
    from hypothesis import given, settings, HealthCheck, strategies as st

    acc = Acc()
    fails = []
    key = st.sampled_from([None, None, "r1", "r2", "r3"])
    op = st.one_of(st.tuples(st.sampled_from(["dumps", "dumps", "pickler", "instance_register"]), key, st.integers(0, 9)),
                   st.tuples(st.just("set"), st.sampled_from(["pickle", "cloudpickle", "", None])))

    @hypothesis.seed(seed)
    @settings(max_examples=n, database=None, deadline=None, suppress_health_check=list(HealthCheck), report_multiple_bugs=False)
    @given(st.lists(op, min_size=2, max_size=12))
    def t(ops):
        ops = [list(o) for o in ops]
        case = {"engine": "pure-isolation", "ops": ops}
        nt = any(a[0] != "set" and a[1] is not None and any(b[0] != "set" and b[1] is None for b in ops[i + 1:])
                 for i, a in enumerate(ops))
        if not fails:
            acc.case(case, nt)
            acc.count("isolation_steps", len(ops))
        bad = isolation_case(case)
        if bad:
            fails.append({"kind": bad[0], "detail": bad[1], "case": case, "where": "isolation"})
            raise AssertionError(bad[0])

    try:
        t()
    except BaseException:
        if not fails:
            raise
    if fails:
        acc.violations.append(fails[-1])
    return acc


# ----------------------------------------------------------------------------- REAL
def _norm(name):
    return "cloudpickle" if name in ("", None) else name


def real_oracle(prog, out):
    bad = None
    exs = prog["executors"]
    rows = [o for o in out if "e" in o]
    nsub = sum(1 for s in prog["steps"] if s[0] == "submit")
    if not any(o.get("done") for o in out) or len(rows) != nsub:
        return ("driver_incomplete", f"{len(rows)} results for {nsub} submits; out={out[-2:]}")
    for o in out:
        if "local" in o and o["local"] != ["marker", o["v"]]:
            return ("local_dumps_affected_by_executor_reducers", f"{o}")
    for o in rows:
        e = exs[o["e"]]
        if "error" in o:
            return ("task_failed", f"{o}")
        want_arg = ["marker", o["v"]] if e["job"] is None else ["reduced", e["job"], o["v"]]
        rk = e["result"] if e["result"] is not None else e["job"]
        want_ret = ["marker", o["v"]] if rk is None else ["reduced", rk, o["v"]]
        if o["arg"] != want_arg:
            return ("job_reducers_scope", f"executor {o['e']} (job={e['job']}, result={e['result']}): argument arrived as {o['arg']}, expected {want_arg}")
        if o["ret"] != want_ret:
            return ("result_reducers_scope", f"executor {o['e']} (job={e['job']}, result={e['result']}): result arrived as {o['ret']}, expected {want_ret}")
        if _norm(o["worker_pickler"]) != _norm(o["submit_pickler"]):
            bad = ("worker_pickler_differs_from_pickler_at_submit",
                   f"task v={o['v']} on executor {o['e']} was submitted under pickler {o['submit_pickler']!r} but its worker used "
                   f"{o['worker_pickler']!r}")
    return bad


def real_shard(seed, n):
    import hypothesis
    from hypothesis import given, settings, HealthCheck, strategies as st
    from real import runner

    acc = Acc()
    fails = []
    base = runner.workdir("c15real")
    key = st.sampled_from([None, "r1", "r2", "r3"])
    ex = st.fixed_dictionaries({"job": key, "result": key, "max_workers": st.integers(1, 2)})
    step = st.one_of(st.tuples(st.just("submit"), st.integers(0, 1), st.integers(0, 99), st.sampled_from([0, 0, 0, 0.15])),
                     st.tuples(st.just("set"), st.sampled_from(["pickle", "cloudpickle", None])),
                     st.tuples(st.just("local"), st.integers(0, 99)))

    @hypothesis.seed(seed)
    @settings(max_examples=n, database=None, deadline=None, suppress_health_check=list(HealthCheck), report_multiple_bugs=False)
    @given(st.lists(ex, min_size=2, max_size=2), st.lists(step, min_size=3, max_size=14))
    def t(exs, steps):
        from vlib import findings
        steps = [list(s) for s in steps]
        if not any(s[0] == "submit" for s in steps):
            steps.append(["submit", 0, 1, 0])
        prog = {"executors": exs, "steps": steps}
        res = runner.run("drv_c15.py", prog, base, timeout=150)
        if res["timed_out"]:
            raise HarnessError(f"C15 real driver watchdog: {res['err'][-500:]}")
        case = {"engine": "real", "prog": prog}
        sets = [i for i, s in enumerate(steps) if s[0] == "set"]
        subs = [i for i, s in enumerate(steps) if s[0] == "submit"]
        nt = (exs[0]["job"], exs[0]["result"]) != (exs[1]["job"], exs[1]["result"]) or \
            any(a < s < b for s in sets for a in subs for b in subs)
        if not fails:
            acc.case(case, nt)
            acc.count("real_cases")
        bad = real_oracle(prog, res["out"])
        if bad:
            viol = {"kind": bad[0], "detail": bad[1], "case": case, "where": "real", "predicates": predicates(case, bad[0])}
            if findings.match(ID, viol) is not None:
                if not any(x.get("_known") for x in acc.violations):
                    acc.violations.append(dict(viol, _known=True))
                return
            fails.append(viol)
            raise AssertionError(bad[0])

    try:
        t()
    except BaseException:
        if not fails:
            raise
    finally:
        import shutil
        shutil.rmtree(base, ignore_errors=True)
    if fails:
        acc.violations.append(fails[-1])
    return acc


def predicates(case, vkind):
    preds = []
    if case.get("engine") == "real":
        steps = case["prog"]["steps"]
        sets = [i for i, s in enumerate(steps) if s[0] == "set"]
        subs = [i for i, s in enumerate(steps) if s[0] == "submit"]
        if any(a < s for s in sets for a in subs):
            preds.append("set_loky_pickler_after_a_submit")
    return preds


def run(tier, seed):
    from vlib.shards import run_jobs
    nf = 8000 if tier == "quick" else 480000
    ni = 4000 if tier == "quick" else 240000
    nr = 48 if tier == "quick" else 2560
    jobs = [{"module": "props.c15", "func": "fidelity_shard", "kwargs": {"seed": common.derive_seed(seed, ID, "f", i), "n": nf // 4}} for i in range(4)]
    jobs += [{"module": "props.c15", "func": "isolation_shard", "kwargs": {"seed": common.derive_seed(seed, ID, "i", i), "n": ni // 4}} for i in range(4)]
    jobs += [{"module": "props.c15", "func": "real_shard", "kwargs": {"seed": common.derive_seed(seed, ID, "r", i), "n": nr // 8}} for i in range(8)]
    acc, not_run = run_jobs(jobs, tag="c15", timeout_s=1200 if tier == "quick" else 7200)
    if not_run:
        acc.notes.append(f"{not_run} shard processes hit the wall-clock cap")
    return acc


def replay(case, verbose=False):
    eng = case.get("engine")
    if eng == "pure-fidelity":
        bad = fidelity_case(case)
    elif eng == "pure-isolation":
        bad = isolation_case(case)
    else:
        from real import runner
        base = runner.workdir("c15replay")
        res = runner.run("drv_c15.py", case["prog"], base, timeout=150)
        if verbose:
            print(res["out"], res["err"][-400:])
        bad = real_oracle(case["prog"], res["out"])
        import shutil
        shutil.rmtree(base, ignore_errors=True)
    return [{"kind": bad[0], "detail": bad[1], "case": case, "predicates": predicates(case, bad[0])}] if bad else []
