"""C02 - abrupt worker death is always detected and fails the pool loudly (SIM engine, deciding)."""
from sim import oracles, strategies
from props._simprop import install

ID = "C02"
RULE = (
    "Case = (config, program, schedule, 1-2 abrupt deaths: injected at the n-th scheduling point of the k-th spawned "
    "worker with cause in {SIGKILL, SIGSEGV, SIGTERM, exit(n), exit(0)}, or a task that takes its worker down, or an "
    "initializer failing on a chosen spawn) plus a late probe submit. Oracle on the history: futures resolved before "
    "the first unannounced death D keep their outcome; every future unresolved at D ends with its own outcome or a "
    "BrokenProcessPool error (TerminatedWorkerError naming an exit code), never a fabricated value and never pending; "
    "the probe submit is refused with the broken-pool error; every worker is dead and joined. "
    "Non-trivial = an unannounced death happened with >= 1 future unresolved at that moment; histogram death_at:* "
    "gives the program-point class of each injected death."
)


def profile(tier):
    return strategies.profile(
        fault_weights=[1, 8, 4], max_faults=2,
        kinds={"echo": 10, "raise": 2, "gate": 2, "big": 3, "bigarg": 1, "unp_arg": 1, "unp_res": 1, "die": 2,
               "unl_arg": 1, "unl_res": 1},
        initializers=["none", "none", "ok", ["raise_on", [1]], ["raise_on", [0, 2]]],
        executors=["plain", "plain", "plain", "reusable"],
        endings=["none", "wait_all", "wait_all", "shutdown_wait", "wait_shutdown", "del", "exit", "shutdown_nowait"],
        probe=1, max_threads=2,
    )


def nontrivial(H):
    d = [s for s in H.death_snapshots if not s["announced"]]
    return bool(d) and any(st not in oracles.DONE for st in d[0]["states"].values())


def oracle(H):
    return oracles.c02(H)


SWEEP = (8, 120)
install(globals(), ID, 3000, 40000)
