"""C02 - abrupt worker death is always detected and fails the pool loudly (SIM engine, deciding)."""
from sim import oracles, strategies
from props._simprop import install

ID = "C02"
RULE = (
    "Case = (config, program, schedule, 1-2 abrupt deaths: injected at the n-th scheduling point of the k-th spawned "
    "worker with cause in {SIGKILL, SIGSEGV, SIGTERM, exit(n), exit(0)}, or a task that takes its worker down, or an "
    "initializer failing on a chosen spawn) plus a late probe submit. Oracle on the history: futures resolved before "
    "the first unannounced death D keep their outcome; every future unresolved at D ends with its own outcome or a "
    "BrokenProcessPool error (TerminatedWorkerError naming an exit code), never a fabricated value and never pending; "
    "the probe submit is refused with the broken-pool error; every worker is dead and joined. "
    "Non-trivial = an unannounced death happened with >= 1 future unresolved at that moment; histogram death_at:* "
    "gives the program-point class of each injected death."
)


def profile(tier):
    return strategies.profile(
        fault_weights=[1, 8, 4], max_faults=2,
        kinds={"echo": 10, "raise": 2, "gate": 2, "big": 3, "bigarg": 1, "unp_arg": 1, "unp_res": 1, "die": 2,
               "unl_arg": 1, "unl_res": 1},
        initializers=["none", "none", "ok", ["raise_on", [1]], ["raise_on", [0, 2]]],
        executors=["plain", "plain", "plain", "reusable"],
        endings=["none", "wait_all", "wait_all", "shutdown_wait", "wait_shutdown", "del", "exit", "shutdown_nowait"],
        probe=1, max_threads=2,
    )


def nontrivial(H):
    d = [s for s in H.death_snapshots if not s["announced"]]
    return bool(d) and any(st not in oracles.DONE for st in d[0]["states"].values())


def oracle(H):
    return oracles.c02(H)


SWEEP = (4, 120)
install(globals(), ID, 3000, 40000)
_sim_run = run
_sim_replay = replay

# ----------------------------------------------------------------------------- REAL confirming part (fault points, LOKY_VERIF=1)
KILL_POINTS = ["worker.init_done", "worker.before_get", "worker.got_item", "worker.before_send", "worker.sent",
               "worker.before_announce", "worker.announced"]


def real_oracle(prog, out):
    v = []
    main = [o for o in out if "outcomes" in o]
    end = [o for o in out if o.get("done")]
    if not main:
        return [("driver_incomplete", f"{out[-2:]}")]
    m = main[0]
    if prog.get("ext_kill"):
        # no fault plan: an idle worker was killed from outside after the tasks had completed
        plan = {"point": "external", "nth": 1, "action": f"kill:{prog['ext_kill']['sig']}"}
        key = None
        fired = m.get("ext_killed") is not None
        m = dict(m, hits_before_probe={None: [1]} if fired else {})
    else:
        plan = prog["plan"][0]
        key = plan["point"] + ".worker"
        fired = len(m["hits"].get(key, [])) >= plan["nth"]
    unannounced = fired and plan["point"] != "worker.announced"
    for i, o in enumerate(m["outcomes"]):
        if o == ["TIMEOUT"]:
            if m["stuck"]:
                v.append(("future_pending_after_worker_death", f"task {i} unresolved 40 s after a worker was killed at {plan}; the whole "
                          f"process tree is idle (no CPU time consumed in 2 s)"))
            continue
        if o[0] == "submit_raised":
            if "BrokenProcessPool" not in o[2]:
                v.append(("submit_wrong_error", f"task {i}: submit raised {o[:2]}"))
            continue
        if o[0] == "val":
            if o[1] != ["ok", i]:
                v.append(("fabricated_or_wrong_value", f"task {i}: {o}"))
        elif "BrokenProcessPool" not in o[2]:
            v.append(("wrong_error_after_worker_death", f"task {i}: {o[:2]}"))
        elif o[1] == "TerminatedWorkerError" and plan["action"].startswith("kill:") and f"(-{plan['action'][5:]})" not in o[3] \
                and "SIG" not in o[3] and "EXIT" not in o[3]:
            v.append(("exit_code_not_named", f"task {i}: {o[3][-200:]}"))
    # (the probe clauses need the death to precede the probe's submit: the fault may also fire on the probe task itself or
    # on a worker respawned for it)
    fired_before_probe = len(m.get("hits_before_probe", m["hits"]).get(key, [])) >= plan["nth"]
    if unannounced and fired_before_probe:
        pr = m["probe"]
        if pr and pr[0] == "val":
            v.append(("submit_accepted_after_death", f"a submit() after the unannounced death at {plan} was accepted and ran: {pr}"))
        elif pr and pr[0] in ("exc", "submit_raised") and "BrokenProcessPool" not in pr[2]:
            v.append(("submit_wrong_error", f"{pr[:2]}"))
        if not any(o[0] == "exc" for o in m["outcomes"]) and m["broken"] is None and pr and pr[0] == "TIMEOUT" and m["stuck"]:
            v.append(("death_not_detected", f"{plan}: pool not broken, probe pending, tree idle"))
    if end and unannounced:
        e = end[0]
        if not e["shutdown_returned"]:
            v.append(("shutdown_hangs_after_break", "shutdown(wait=True) did not return within 40 s"))
        elif e["workers_alive_after"]:
            v.append(("workers_not_killed", f"{e['workers_alive_after']} alive after the pool broke and was shut down"))
    return v


def real_shard(seed, n, tier="quick"):
    import json
    import hypothesis
    from hypothesis import given, settings, HealthCheck, Phase, strategies as st
    from real import runner
    from vlib.common import Acc, HarnessError

    acc = Acc()
    fails = []
    base = runner.workdir("c02real")
    phases = [Phase.generate] if tier == "quick" else [Phase.generate, Phase.shrink]
    task = st.one_of(st.tuples(st.just("echo")), st.tuples(st.just("nap"), st.sampled_from([0.02, 0.2])),
                     st.tuples(st.just("big"), st.sampled_from([1000, 200000])))
    # a worker with helper subprocesses; with reap_nth, one of them exits on its own (and is reaped) between the listing of that
    # worker's process tree and its kill, when the broken pool kills its remaining workers
    tree_task = st.tuples(st.just("tree"), st.sampled_from([2, 3]))

    @hypothesis.seed(seed)
    @settings(max_examples=n, database=None, deadline=None, suppress_health_check=list(HealthCheck), report_multiple_bugs=False,
              phases=phases)
    @given(st.integers(1, 3), st.sampled_from([None, None, 0.3, 20]), st.lists(task, min_size=1, max_size=8),
           st.sampled_from(KILL_POINTS), st.integers(1, 6), st.sampled_from(["kill:9", "kill:11", "kill:15", "kill:37", "kill:6", "exit:3", "exit:0"]),
           st.sampled_from([0, 0, 0.02]), st.one_of(st.none(), st.none(), tree_task), st.sampled_from([0, 1, 1, 2, 2, 3]))
    def t(workers, timeout, tasks, point, nth, action, gap, tree, reap_nth):
        if point in ("worker.before_announce", "worker.announced") and timeout is None:
            timeout = 0.3
        prog = {"workers": workers, "timeout": timeout, "tasks": [list(x) for x in tasks], "gap": gap,
                "idle": 1.2 if timeout == 0.3 else 0, "plan": [{"point": point, "role": "worker", "nth": nth, "action": action}]}
        if tree is None and reap_nth == 3 and timeout in (None, 20):
            # instead of a fault point inside a worker: an idle worker is killed from outside once the tasks are done
            prog["plan"] = []
            prog["ext_kill"] = {"which": nth, "sig": 9 if action != "kill:11" else 11}
            point = "external"
        if tree is not None:
            # the helpers' worker takes the first task; a later task's worker is the one that dies
            prog["workers"] = max(2, workers)
            prog["tasks"] = [list(tree)] + prog["tasks"]
            prog["gap"] = 0.05
            if point in ("worker.got_item", "worker.before_send", "worker.sent"):
                prog["plan"][0]["nth"] = nth = 2 + nth % 2
            if reap_nth:
                prog["plan"].append({"point": "kill_tree.listed", "role": "parent", "nth": reap_nth, "action": "reap_descendant"})
        d_env = {"LOKY_VERIF_PLAN": json.dumps(prog["plan"])}
        res, p = runner.run_driver("drv_fault.py", prog, base, timeout=240, env_extra=dict(d_env, LOKY_VERIF_DIR="."), hooks=True)
        res = runner.finish(res, p)
        case = {"engine": "real", "prog": prog}
        v = real_oracle(prog, res["out"])
        if v and v[0][0] == "driver_incomplete":
            if res["timed_out"]:
                v = [("driver_hangs", f"the driver did not finish within 240 s with plan {prog['plan']}; err={res['err'][-300:]}")]
            else:
                raise HarnessError(f"C02 real driver incomplete rc={res['rc']}: {res['err'][-800:]} prog={prog}")
        main = [o for o in res["out"] if "outcomes" in o]
        fired = bool(main) and (len(main[0]["hits"].get(point + ".worker", [])) >= nth or main[0].get("ext_killed") is not None)
        if not fails:
            acc.case(case, fired)
            acc.count("real_fault_cases")
            acc.count("real_fault_fired" if fired else "real_fault_not_reached")
            acc.count("real_point:" + point)
            if tree is not None:
                acc.count("real_worker_with_helpers")
                if len(prog["plan"]) > 1 and main and main[0]["hits"].get("kill_tree.listed.parent"):
                    acc.count("real_tree_listed_with_reap_plan")
        if v:
            fails.append({"kind": v[0][0], "detail": v[0][1], "case": case, "where": "real:" + point})
            raise AssertionError(v[0][0])

    try:
        t()
    except BaseException:
        if not fails:
            raise
    finally:
        import shutil
        shutil.rmtree(base, ignore_errors=True)
    if fails:
        acc.violations.append(fails[-1])
    return acc


def run(tier, seed):
    from vlib import common
    from vlib.shards import run_jobs
    acc = _sim_run(tier, seed)
    nr = 64 if tier == "quick" else 960
    a2, not_run = run_jobs([{"module": "props.c02", "func": "real_shard",
                             "kwargs": {"seed": common.derive_seed(seed, ID, "real", i), "n": nr // 16, "tier": tier}} for i in range(16)],
                           tag="c02real", timeout_s=1500 if tier == "quick" else 7200)
    acc.merge(a2, sample_cap=10)
    return acc


def replay(case, verbose=False):
    if case.get("engine") == "real":
        import json
        import shutil
        from real import runner
        base = runner.workdir("c02replay")
        prog = case["prog"]
        res, p = runner.run_driver("drv_fault.py", prog, base, timeout=240,
                                   env_extra={"LOKY_VERIF_PLAN": json.dumps(prog["plan"]), "LOKY_VERIF_DIR": "."}, hooks=True)
        res = runner.finish(res, p)
        if verbose:
            print(res["out"], res["err"][-500:])
        v = real_oracle(prog, res["out"])
        shutil.rmtree(base, ignore_errors=True)
        return [{"kind": k, "detail": d, "case": case, "predicates": []} for k, d in v]
    return _sim_replay(case, verbose)
