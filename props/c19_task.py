"""Recursive task for the C19 REAL check (importable in workers)."""
import os


def _children():
    import psutil
    me = psutil.Process()
    out = []
    for c in me.children(recursive=False):
        try:
            cmd = " ".join(c.cmdline())
        except Exception:
            cmd = ""
        if "resource_tracker" in cmd:
            continue
        out.append(c.pid)
    return sorted(out)


def level(d, prog):
    """Runs in the process at nesting level d: reports the depth it sees, tries to create an executor and recurses."""
    import loky.process_executor as pe
    from loky import get_reusable_executor
    from loky.process_executor import ProcessPoolExecutor, LokyRecursionError

    rec = {"level": d, "pid": os.getpid(), "depth_seen": pe._CURRENT_DEPTH, "max_depth": pe.MAX_DEPTH}
    if d >= prog["levels"]:
        rec["stop"] = True
        return rec
    kind = prog["kinds"][d % len(prog["kinds"])]
    before = _children()
    try:
        if kind == "reusable":
            ex = get_reusable_executor(max_workers=prog["workers"], timeout=prog["timeout"])
        else:
            ex = ProcessPoolExecutor(max_workers=prog["workers"], timeout=prog["timeout"])
    except LokyRecursionError as e:
        rec["create"] = "LokyRecursionError"
        rec["new_children_after_refusal"] = [p for p in _children() if p not in before]
        return rec
    except BaseException as e:
        rec["create"] = f"other:{type(e).__name__}:{e}"[:200]
        return rec
    rec["create"] = "ok"
    try:
        subs = []
        for i in range(prog["tasks"]):
            subs.append(ex.submit(level, d + 1, prog).result(timeout=120))
            if kind == "reusable" and prog.get("resize") and i == 0:
                ex = get_reusable_executor(max_workers=prog["workers"] + 1, timeout=prog["timeout"])
            if prog.get("idle") and i == 0:
                import time
                time.sleep(prog["timeout"] * 3 if prog["timeout"] else 0)
        rec["sub"] = subs
    except BaseException as e:
        rec["sub_error"] = f"{type(e).__name__}: {e}"[:300]
    finally:
        ex.shutdown(wait=True)
    return rec
