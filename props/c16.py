"""C16 - wrap_non_picklable_objects is behaviour-preserving (PURE: differential with the unwrapped object)."""
import pickle

from vlib import common
from vlib.common import Acc

ID = "C16"
RULE = (
    "Objects are materialised by exec of generated source in a throw-away, non-importable module namespace (so plain "
    "pickle cannot serialise them): lambdas with defaults, closures over generated values, nested closures, recursive "
    "functions, functions with attributes, classes with generated constructor arguments (with and without __call__, "
    "with properties and methods) and their instances. For each: wrap(obj, keep_wrapper in {True, False}), optionally "
    "wrap the wrapper again, 1-3 plain-pickle round trips. Oracle = differential with the unwrapped object on generated "
    "call arguments and attribute reads: callable(w) == callable(obj); equal call results / attributes / method "
    "results before and after every round trip; pickle.dumps(w) succeeds although pickle.dumps(obj) fails; the arrival "
    "is a wrapper iff keep_wrapper; for wrapped classes the constructor's instances behave like instances of the class "
    "and obey the same rule. Non-trivial = plain pickle really fails on the bare object and >= 1 round trip was made."
)
ASSUMPTIONS = ["objects are ones cloudpickle can serialise (functions/classes by value, picklable captured values)",
               "equality of behaviour is sampled on 3 generated argument tuples per object"]

TEMPLATES = {
    "lambda": "obj = lambda x, y={b}: x * {a} + y\n",
    "closure": "def _mk(a):\n    def g(x, y=0):\n        return x + a - y\n    return g\nobj = _mk({a})\n",
    "nested": "def _mk(a):\n    def h(b):\n        def g(x, y=1):\n            return (x * a + b) * y\n        return g\n    return h({b})\nobj = _mk({a})\n",
    "recursive": "def obj(n, y=0):\n    return {a} + y if n <= 0 else (n + obj(n - 1)) % 1000003\n",
    "attr_func": "def obj(x, y=2):\n    return [x, y, {a}]\nobj.tag = {b}\nobj.info = ('t', {a})\n",
    "instance": ("class K:\n    def __init__(self, p, q={b}):\n        self.p = p\n        self.q = q\n"
                 "    def m(self, x, y=0):\n        return self.p * x + self.q + y\n"
                 "    @property\n    def double(self):\n        return 2 * self.p\n"
                 "obj = K({a})\n"),
    "callable_instance": ("class K:\n    def __init__(self, p, q={b}):\n        self.p = p\n        self.q = q\n"
                          "    def m(self, x, y=0):\n        return self.p * x + self.q + y\n"
                          "    def __call__(self, x, y=0):\n        return (self.p, x, y, self.q)\n"
                          "obj = K({a})\n"),
    "class": ("class obj:\n    kind = 'plain'\n    def __init__(self, p, q={b}, *rest, **kw):\n        self.p = p\n        self.q = q\n"
              "        self.rest = rest\n        self.kw = kw\n"
              "    def m(self, x, y=0):\n        return self.p * x + self.q + y + len(self.rest) + len(self.kw)\n"),
    "callable_class": ("class obj:\n    kind = 'callable'\n    def __init__(self, p, q={b}, *rest, **kw):\n        self.p = p\n        self.q = q\n"
                       "        self.rest = rest\n        self.kw = kw\n"
                       "    def m(self, x, y=0):\n        return self.p * x + self.q + y\n"
                       "    def __call__(self, x, y=0):\n        return ('called', self.p, x, y)\n"),
    "callable_class_inherited": ("class _Base:\n    def __call__(self, x, y=0):\n        return ('base-called', self.p, x, y)\n"
                                 "class _Mixin:\n    extra = {a}\n"
                                 "class obj(_Mixin, _Base):\n    kind = 'inherits-call'\n    def __init__(self, p, q={b}, *rest, **kw):\n"
                                 "        self.p = p\n        self.q = q\n        self.rest = rest\n        self.kw = kw\n"
                                 "    def m(self, x, y=0):\n        return self.p * x + self.q + y + self.extra\n"),
    "instance_inherited_call": ("class _Base:\n    def __call__(self, x, y=0):\n        return ('base-called', self.p, x, y)\n"
                                "class K(_Base):\n    def __init__(self, p, q={b}):\n        self.p = p\n        self.q = q\n"
                                "    def m(self, x, y=0):\n        return self.p * x - self.q + y\n"
                                "obj = K({a})\n"),
}
ATTRS = {"attr_func": ["tag", "info", "__name__"], "instance": ["p", "q", "double"], "callable_instance": ["p", "q"],
         "instance_inherited_call": ["p", "q"],
         "lambda": ["__name__"], "closure": ["__name__"], "nested": ["__name__"], "recursive": ["__name__"]}


def build(kind, a, b):
    ns = {"__name__": "verif_dyn_not_importable"}
    exec(TEMPLATES[kind].format(a=a, b=b), ns)
    return ns["obj"]


def _behaviour(o, kind, argsets, ctor=None):
    """Observable behaviour of an object (or of a wrapped one): a JSON-able summary."""
    out = {"callable": callable(o)}
    if kind in ("class", "callable_class", "callable_class_inherited"):
        return out
    calls = []
    if callable(o):
        for a in argsets:
            try:
                calls.append(["ret", repr(o(*a))])
            except Exception as e:
                calls.append(["raise", type(e).__name__])
    out["calls"] = calls
    attrs = {}
    for name in ATTRS.get(kind, []):
        try:
            attrs[name] = repr(getattr(o, name))
        except Exception as e:
            attrs[name] = "raise:" + type(e).__name__
    out["attrs"] = attrs
    if hasattr(o, "m"):
        ms = []
        for a in argsets:
            try:
                ms.append(repr(o.m(*a)))
            except Exception as e:
                ms.append("raise:" + type(e).__name__)
        out["method"] = ms
    return out


def check_case(case):
    """Returns list of (kind, detail)."""
    common.add_repo_to_path()
    from loky.cloudpickle_wrapper import wrap_non_picklable_objects, CloudpickledObjectWrapper

    kind, a, b = case["kind"], case["a"], case["b"]
    keep, rounds, double = case["keep_wrapper"], case["rounds"], case["double_wrap"]
    argsets = [tuple(x) for x in case["argsets"]]
    v = []
    obj = build(kind, a, b)
    try:
        pickle.dumps(obj)
        bare_picklable = True
    except Exception:
        bare_picklable = False
    case["_bare_picklable"] = bare_picklable
    is_class = kind in ("class", "callable_class", "callable_class_inherited")
    if is_class:
        ctor_args, ctor_kw = tuple(case["ctor"][0]), dict(case["ctor"][1])
        ref = obj(*ctor_args, **ctor_kw)
        ikind = "callable_instance" if kind != "class" else "instance"
        W = wrap_non_picklable_objects(obj, keep_wrapper=keep)
        try:
            w = W(*ctor_args, **ctor_kw)
        except Exception as e:
            return [("class_wrapper_constructor_failed", f"{type(e).__name__}: {e}")]
        if getattr(W, "__name__", None) != obj.__name__:
            v.append(("class_wrapper_name_differs", f"{getattr(W, '__name__', None)} vs {obj.__name__}"))
    else:
        ref = obj
        ikind = kind
        w = wrap_non_picklable_objects(obj, keep_wrapper=keep)
        if double:
            w = wrap_non_picklable_objects(w, keep_wrapper=keep)
    want = _behaviour(ref, ikind, argsets)
    got = _behaviour(w, ikind, argsets)
    if got != want:
        v.append(("wrapper_behaviour_differs", f"before any round trip: wrapped {got} vs original {want}"))
        return v
    cur = w
    for r in range(rounds):
        try:
            blob = pickle.dumps(cur)
            cur = pickle.loads(blob)
        except Exception as e:
            v.append(("plain_pickle_round_trip_failed", f"round {r + 1}: {type(e).__name__}: {e}"))
            return v
        wrapped = isinstance(cur, CloudpickledObjectWrapper)
        if wrapped != bool(keep):
            v.append(("arrival_wrapping_differs_from_keep_wrapper", f"round {r + 1}: keep_wrapper={keep} but arrival is "
                      f"{'wrapped' if wrapped else 'unwrapped'} ({type(cur).__name__})"))
            return v
        got = _behaviour(cur, ikind, argsets)
        if got != want:
            v.append(("behaviour_differs_after_round_trip", f"round {r + 1}: {got} vs original {want}"))
            return v
        if not keep:
            if type(cur).__name__ != type(ref).__name__:
                v.append(("unwrapped_arrival_has_wrong_type", f"{type(cur).__name__} vs {type(ref).__name__}"))
                return v
            # an unwrapped arrival is the bare (non plain-picklable) object again: wrap it to travel further
            cur = wrap_non_picklable_objects(cur, keep_wrapper=keep)
    return v


def shard(seed, n):
    import hypothesis
    from hypothesis import given, settings, HealthCheck, strategies as st

    acc = Acc()
    fails = []
    small = st.integers(-5, 9)
    argset = st.lists(small, min_size=1, max_size=2)

    @st.composite
    def cases(draw):
        kind = draw(st.sampled_from(sorted(TEMPLATES)))
        c = {"kind": kind, "a": draw(small), "b": draw(small), "keep_wrapper": draw(st.booleans()),
             "rounds": draw(st.integers(1, 3)), "double_wrap": draw(st.booleans()),
             "argsets": draw(st.lists(argset, min_size=3, max_size=3))}
        if kind in ("class", "callable_class", "callable_class_inherited"):
            extra = draw(st.lists(small, min_size=0, max_size=2))
            kw = draw(st.dictionaries(st.sampled_from(["u", "v"]), small, max_size=2))
            pos = [draw(small)] + (([draw(small)] + extra) if draw(st.booleans()) else [])
            c["ctor"] = [pos, kw]
        return c

    @hypothesis.seed(seed)
    @settings(max_examples=n, database=None, deadline=None, suppress_health_check=list(HealthCheck),
              report_multiple_bugs=False)
    @given(cases())
    def t(case):
        from vlib import findings
        case = dict(case)
        v = check_case(case)
        bare = case.pop("_bare_picklable", None)
        if not fails:
            acc.case(case, bare is False and case["rounds"] >= 1)
            acc.count("kind:" + case["kind"])
            acc.count(f"keep_wrapper:{case['keep_wrapper']}")
            acc.count(f"rounds:{case['rounds']}")
            acc.count("bare_object_plain_picklable" if bare else "bare_object_not_plain_picklable")
        if v:
            viol = {"kind": v[0][0], "detail": v[0][1], "case": case, "where": case["kind"], "predicates": predicates(case, v[0][0])}
            if findings.match(ID, viol) is not None:
                if not any(x.get("_known") for x in acc.violations):
                    acc.violations.append(dict(viol, _known=True))
                return
            fails.append(viol)
            raise AssertionError(v[0][0])

    try:
        t()
    except BaseException:
        if not fails:
            raise
    if fails:
        acc.violations.append(fails[-1])
    return acc


def predicates(case, vkind):
    preds = []
    if case["kind"] == "callable_class":
        preds.append("wrapped_class_defines___call__")
    return preds


def run(tier, seed):
    from vlib.shards import run_jobs
    n = 6000 if tier == "quick" else 800000
    acc, _ = run_jobs([{"module": "props.c16", "func": "shard", "kwargs": {"seed": common.derive_seed(seed, ID, i), "n": n // 16}}
                       for i in range(16)], tag="c16")
    return acc


def replay(case, verbose=False):
    case = dict(case)
    v = check_case(case)
    return [{"kind": k, "detail": d, "case": case, "predicates": predicates(case, k)} for k, d in v]
