"""C06 - forced shutdown is prompt, total and explicit (SIM engine: logic; REAL engine part in props/c06 real_*)."""
from sim import oracles, strategies
from props._simprop import install

ID = "C06"
RULE = (
    "SIM: pools of 1-4 workers loaded with gate tasks that are NEVER opened (stand for arbitrarily long tasks) mixed "
    "with echo/raise/big tasks; every thread ends with shutdown(wait=True, kill_workers=True) or, on the reusable "
    "executor, get_reusable_executor(kill_workers=True) with changed arguments, placed by the generated schedule at any "
    "state of the pool (queued / dispatched / running / results in flight / mid-respawn / mid idle-exit). Oracle: the "
    "call returns although the tasks never end (logical promptness); every future unfinished at that moment ends with "
    "ShutdownExecutorError or its own outcome (never another task's, never a broken-pool error, never pending); no "
    "worker alive, all joined. Non-trivial = a forced shutdown was issued while >= 1 future was unresolved."
)


def profile(tier):
    return strategies.profile(
        max_faults=0, gates_never_open=True,
        kinds={"echo": 6, "gate": 6, "raise": 1, "big": 2, "bigarg": 1, "unp_res": 1},
        ops={"submit": 12, "result": 0, "cancel": 1, "map": 0, "callback": 1, "sleep": 2, "wait_all": 0, "get": 0},
        endings=["kill", "kill", "kill", "kill_get"],
        timeouts=[None, 10, 0.5, 1e-3, 0],
        max_threads=2,
    )


def post_adjust(case):
    cfg = case["config"]
    for ops in case["program"]:
        for op in ops:
            if op[0] == "callback" and op[2] == "submit":
                op[2] = "raise"
            if op[0] == "result":
                op[0] = "sleep"; op[1] = 1e-3; del op[2:]
        if ops and ops[-1] == ["kill_get"]:
            ops.pop()
            if cfg["executor"] == "reusable":
                ops.append(["get", {"max_workers": cfg["max_workers"], "timeout": 77, "reuse": "auto", "kill_workers": True}])
            else:
                ops.append(["shutdown", True, True])
    return case


def nontrivial(H):
    ks = [o for o in H.ops if (o["op"][0] == "shutdown" and o["op"][2]) or (o["op"][0] == "get" and o["op"][1].get("kill_workers"))]
    if not ks:
        return False
    t0 = min(o["start"] for o in ks)
    return any(f["submit_step"] <= t0 for f in H.futures.values()) and any(
        f["spec"]["kind"] == "gate" for f in H.futures.values())


def oracle(H):
    return oracles.c06(H)


SWEEP = (6, 100)
install(globals(), ID, 3000, 40000)
