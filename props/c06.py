"""C06 - forced shutdown is prompt, total and explicit (SIM engine: logic; REAL engine part in props/c06 real_*)."""
from sim import oracles, strategies
from props._simprop import install

ID = "C06"
RULE = (
    "SIM: pools of 1-4 workers loaded with gate tasks that are NEVER opened (stand for arbitrarily long tasks) mixed "
    "with echo/raise/big tasks; every thread ends with shutdown(wait=True, kill_workers=True) or, on the reusable "
    "executor, get_reusable_executor(kill_workers=True) with changed arguments, placed by the generated schedule at any "
    "state of the pool (queued / dispatched / running / results in flight / mid-respawn / mid idle-exit). Oracle: the "
    "call returns although the tasks never end (logical promptness); every future unfinished at that moment ends with "
    "ShutdownExecutorError or its own outcome (never another task's, never a broken-pool error, never pending); no "
    "worker alive, all joined. Non-trivial = a forced shutdown was issued while >= 1 future was unresolved."
)


def profile(tier):
    return strategies.profile(
        max_faults=0, gates_never_open=True,
        kinds={"echo": 6, "gate": 6, "raise": 1, "big": 2, "bigarg": 1, "unp_res": 1},
        ops={"submit": 12, "result": 0, "cancel": 1, "map": 0, "callback": 1, "sleep": 2, "wait_all": 0, "get": 0},
        endings=["kill", "kill", "kill", "kill_get"],
        timeouts=[None, 10, 0.5, 1e-3, 0],
        max_threads=2,
    )


def post_adjust(case):
    cfg = case["config"]
    for ops in case["program"]:
        for op in ops:
            if op[0] == "callback" and op[2] == "submit":
                op[2] = "raise"
            if op[0] == "result":
                op[0] = "sleep"; op[1] = 1e-3; del op[2:]
        if ops and ops[-1] == ["kill_get"]:
            ops.pop()
            if cfg["executor"] == "reusable":
                ops.append(["get", {"max_workers": cfg["max_workers"], "timeout": 77, "reuse": "auto", "kill_workers": True}])
            else:
                ops.append(["shutdown", True, True])
    return case


def nontrivial(H):
    ks = [o for o in H.ops if (o["op"][0] == "shutdown" and o["op"][2]) or (o["op"][0] == "get" and o["op"][1].get("kill_workers"))]
    if not ks:
        return False
    t0 = min(o["start"] for o in ks)
    return any(f["submit_step"] <= t0 for f in H.futures.values()) and any(
        f["spec"]["kind"] == "gate" for f in H.futures.values())


def oracle(H):
    return oracles.c06(H)


SWEEP = (6, 100)
install(globals(), ID, 3000, 40000)
_sim_run = run
_sim_replay = replay


# ----------------------------------------------------------------------------- REAL part: process trees
def _alive(pid):
    try:
        with open(f"/proc/{pid}/stat") as fh:
            return fh.read().split(")")[-1].split()[0] != "Z"
    except OSError:
        return False


def real_case(prog, base):
    import json
    import os
    import time
    from real import runner
    env = None
    if prog.get("plan"):
        env = {"LOKY_VERIF_PLAN": json.dumps(prog["plan"]), "LOKY_VERIF_DIR": "."}
    res, p = runner.run_driver("drv_c06.py", prog, base, timeout=240, env_extra=env, hooks=bool(prog.get("plan")))
    d = res["dir"]
    pids = {}
    try:
        for f in os.listdir(d):
            if f.startswith("pids_") and f.endswith(".json"):
                r = json.load(open(os.path.join(d, f)))
                pids[f] = r
    except OSError:
        pass
    allp = set()
    for r in pids.values():
        allp.add(r["pid"])
        allp.update(r.get("sub", []))
        allp.update(r.get("nested", []))
    # killed processes vanish quickly; orphans are reaped by init
    t0 = time.time()
    while time.time() - t0 < 8 and any(_alive(x) for x in allp):
        time.sleep(0.05)
    survivors = sorted(x for x in allp if _alive(x))
    what = {}
    for f, r in pids.items():
        for x in [r["pid"]] + r.get("sub", []) + r.get("nested", []):
            if x in survivors:
                what[x] = ("worker" if x == r["pid"] and r["kind"] == "worker" else "nested_worker" if x == r["pid"] or x in r.get("nested", [])
                           else "subprocess") + "@" + f
    res = runner.finish(res, p)
    res.update(survivors=survivors, survivor_kinds=what, n_pids=len(allp))
    return res


def real_oracle(prog, res):
    v = []
    main = [o for o in res["out"] if "workers" in o]
    if res["timed_out"] and not main:
        return [("forced_shutdown_hangs", f"driver watchdog expired during the forced shutdown; err={res['err'][-300:]}")]
    if not main:
        return [("driver_incomplete", f"rc={res['rc']} err={res['err'][-600:]}")]
    m = main[0]
    if m["end_markers"]:
        v.append(("forced_shutdown_waited_for_tasks", f"tasks {m['end_markers']} ran to their end (60 s) before the call returned ({m['call_s']:.1f} s)"))
    for i, (st, out, spec) in enumerate(zip(m["states_before"], m["outcomes"], prog["tasks"])):
        if st == "FINISHED":
            continue
        if out[0] == "ShutdownExecutorError":
            continue
        if out[0] == "ret" and (out[1] == ["done", f"t{i}"] or out[1] == ["slept", f"t{i}"]):
            continue           # resolved with its own value in the meantime
        v.append(("unfinished_future_without_shutdown_error", f"task {i} ({spec}) was {st} at the call and ended with {out}"))
    if m["call_s"] > 30 and not m["end_markers"]:
        # every task body / nested task / helper of the generated programs lasts 60-90 s; the call on the unchanged tree takes
        # well under a second (a few seconds on a loaded machine): half a minute means it waited for something to end by itself
        v.append(("forced_shutdown_not_prompt", f"the call took {m['call_s']:.1f} s: it waited for nested tasks / descendants "
                  f"(60-90 s long) instead of killing them"))
    if res["survivors"]:
        v.append(("process_survives_forced_shutdown", f"{len(res['survivors'])} of {res['n_pids']} recorded processes of the tree are still "
                  f"alive after the call: {res['survivor_kinds']}"))
    return v


def real_shard(seed, n, tier="quick"):
    import hypothesis
    from hypothesis import given, settings, HealthCheck, Phase, strategies as st
    from real import runner
    from vlib.common import Acc, HarnessError

    acc = Acc()
    fails = []
    base = runner.workdir("c06real")
    phases = [Phase.generate] if tier == "quick" else [Phase.generate, Phase.shrink]
    task = st.fixed_dictionaries({"subprocs": st.integers(0, 2), "nested": st.sampled_from([0, 0, 1, 2]),
                                  "finish": st.sampled_from([False, False, False, True])})

    @hypothesis.seed(seed)
    @settings(max_examples=n, database=None, deadline=None, suppress_health_check=list(HealthCheck), report_multiple_bugs=False,
              phases=phases)
    @given(st.integers(1, 3), st.lists(task, min_size=1, max_size=5), st.booleans(), st.sampled_from(["shutdown", "shutdown", "reusable_kill"]),
           st.sampled_from([0, 0.05, 0.3]), st.sampled_from([0, 0, 1, 2]), st.sampled_from([False, False, False, True]))
    def t(workers, tasks, psutil_, via, delay, reap_nth, idle_pool):
        if idle_pool:
            # stratum: every task has returned when the forced shutdown arrives (idle pool), its descendants stay behind
            tasks = [dict(x, finish=True, subprocs=max(1, x["subprocs"])) for x in tasks]
        prog = {"workers": workers, "tasks": tasks, "psutil": psutil_, "via": via, "delay": delay}
        if reap_nth and psutil_:
            # fault point: a listed descendant exits (and is reaped) between the listing of the tree and its own kill
            prog["plan"] = [{"point": "kill_tree.listed", "role": "parent", "nth": reap_nth, "action": "reap_descendant"}]
        res = real_case(prog, base)
        case = {"engine": "real", "prog": prog}
        v = real_oracle(prog, res)
        if v and v[0][0] == "driver_incomplete":
            raise HarnessError(f"C06 real driver incomplete: {v[0][1]} prog={prog}")
        if not fails:
            acc.case(case, any(x["subprocs"] or x["nested"] for x in tasks))
            acc.count("real_cases")
            acc.count("real_psutil:" + str(psutil_))
            acc.count("real_via:" + via)
            acc.count("real_with_reap_fault" if prog.get("plan") else "real_no_fault")
            if all(x["finish"] for x in tasks) and any(x["subprocs"] or x["nested"] for x in tasks):
                acc.count("real_idle_pool_with_descendants")
            acc.count("real_recorded_pids", res["n_pids"])
        if v:
            fails.append({"kind": v[0][0], "detail": v[0][1], "case": case, "where": "real"})
            raise AssertionError(v[0][0])

    try:
        t()
    except BaseException:
        if not fails:
            raise
    finally:
        import shutil
        shutil.rmtree(base, ignore_errors=True)
    if fails:
        acc.violations.append(fails[-1])
    return acc


def run(tier, seed):
    from vlib import common
    from vlib.shards import run_jobs
    acc = _sim_run(tier, seed)
    nr = 48 if tier == "quick" else 640
    a2, not_run = run_jobs([{"module": "props.c06", "func": "real_shard",
                             "kwargs": {"seed": common.derive_seed(seed, ID, "real", i), "n": nr // 16, "tier": tier}} for i in range(16)],
                           tag="c06real", timeout_s=1500 if tier == "quick" else 7200)
    acc.merge(a2, sample_cap=10)
    return acc


def replay(case, verbose=False):
    if case.get("engine") == "real":
        from real import runner
        import shutil
        base = runner.workdir("c06replay")
        res = real_case(case["prog"], base)
        if verbose:
            print(res["out"], res["survivor_kinds"], res["err"][-400:])
        v = real_oracle(case["prog"], res)
        shutil.rmtree(base, ignore_errors=True)
        return [{"kind": k, "detail": d, "case": case} for k, d in v]
    return _sim_replay(case, verbose)
