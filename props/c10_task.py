"""Helpers for the REAL part of C10."""
import os


def init(flag):
    if os.path.exists(flag):
        os._exit(3)          # a worker spawned while the flag exists dies at start-up


def ident(x):
    return x
