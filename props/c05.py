"""C05 - graceful shutdown drains all submitted work and leaves nothing behind (SIM engine)."""
from sim import oracles, strategies
from props._simprop import install

ID = "C05"
RULE = (
    "Fault-free cases; every thread ends with one of shutdown(wait=True) / shutdown(wait=False) / with-exit / dropping "
    "the last reference (GC) / interpreter exit, placed by the scheduler anywhere relative to dispatch, completion, "
    "idle-timeout exits and respawn; call-queue capacity 3-9 against 1-4 workers. Oracle: every future submitted "
    "before the shutdown resolves with its own outcome; no broken-pool error; at quiescence every worker exited with "
    "code 0 and was joined, the manager thread ended; submit after shutdown raises ShutdownExecutorError. "
    "Non-trivial = >= 1 future unresolved when the first shutdown/del/exit op started."
)


def profile(tier):
    return strategies.profile(
        max_faults=0,
        kinds={"echo": 10, "raise": 2, "gate": 2, "big": 2, "bigarg": 2, "unp_arg": 1, "unp_res": 1},
        ops={"submit": 12, "result": 1, "cancel": 2, "map": 1, "callback": 1, "sleep": 1, "wait_all": 0, "get": 0},
        endings=["shutdown_wait", "shutdown_wait", "shutdown_nowait", "del", "exit", "none", "shutdown_then_submit"],
        timeouts=[None, None, 10, 0.5, 1e-3, 0],
    )


def nontrivial(H):
    rel = [o["start"] for o in H.ops if o["op"][0] in ("shutdown", "del", "exit")]
    if not rel:
        return False
    t0 = min(rel)
    return any(f["submit_step"] <= t0 for f in H.futures.values())


def oracle(H):
    return oracles.c05(H)


def post_adjust(case):
    for ops in case["program"]:
        for op in ops:
            if op[0] == "shutdown" and op[2]:
                op[2] = False
    return case


SWEEP = (4, 120)
install(globals(), ID, 3000, 40000)
