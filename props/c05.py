"""C05 - graceful shutdown drains all submitted work and leaves nothing behind (SIM engine)."""
from sim import oracles, strategies
from props._simprop import install

ID = "C05"
RULE = (
    "Fault-free cases; every thread ends with one of shutdown(wait=True) / shutdown(wait=False) / with-exit / dropping "
    "the last reference (GC) / interpreter exit, placed by the scheduler anywhere relative to dispatch, completion, "
    "idle-timeout exits and respawn; call-queue capacity 3-9 against 1-4 workers. Oracle: every future submitted "
    "before the shutdown resolves with its own outcome; no broken-pool error; at quiescence every worker exited with "
    "code 0 and was joined, the manager thread ended; submit after shutdown raises ShutdownExecutorError. "
    "Non-trivial = >= 1 future unresolved when the first shutdown/del/exit op started."
)


def profile(tier):
    return strategies.profile(
        max_faults=0,
        kinds={"echo": 10, "raise": 2, "gate": 2, "big": 2, "bigarg": 2, "unp_arg": 1, "unp_res": 1},
        ops={"submit": 12, "result": 1, "cancel": 2, "map": 1, "callback": 1, "sleep": 1, "wait_all": 0, "get": 0},
        endings=["shutdown_wait", "shutdown_wait", "shutdown_nowait", "del", "exit", "none", "shutdown_then_submit"],
        timeouts=[None, None, 10, 0.5, 1e-3, 0],
    )


def nontrivial(H):
    rel = [o["start"] for o in H.ops if o["op"][0] in ("shutdown", "del", "exit")]
    if not rel:
        return False
    t0 = min(rel)
    return any(f["submit_step"] <= t0 for f in H.futures.values())


def oracle(H):
    return oracles.c05(H)


def post_adjust(case):
    for ops in case["program"]:
        for op in ops:
            if op[0] == "shutdown" and op[2]:
                op[2] = False
    return case


SWEEP = (4, 120)
install(globals(), ID, 3000, 40000)
_sim_run = run
_sim_replay = replay


# ----------------------------------------------------------------------------- REAL part (fault points inside the shutdown phase)
def real_oracle(prog, out):
    m = [o for o in out if "outcomes" in o]
    if not m:
        return [("driver_incomplete", f"{out[-2:]}")]
    m = m[0]
    v = []
    for i, o in enumerate(m["outcomes"]):
        if o != ["val", ["ok", i]]:
            v.append(("not_drained", f"task {i} submitted before the shutdown ended with {o}"))
    if m["broken"] or m["broken_after"]:
        v.append(("pool_flagged_broken_by_graceful_shutdown", f"{m['broken']} / {m['broken_after']}"))
    if m["late_submit"] not in (None, "ShutdownExecutorError"):
        v.append(("submit_after_shutdown", f"{m['late_submit']}"))
    if m["threads_left"] or m["children_left"]:
        v.append(("left_behind_after_shutdown", f"40 s after the shutdown: threads {m['threads_left']}, child processes {m['children_left']}"))
    return v


def real_preds(prog, out):
    mm = [o for o in out if "outcomes" in o]
    preds = []
    if mm and prog["form"] in ("nowait", "del") and prog["timeout"] is not None and not mm[0]["children_left"] \
            and not mm[0]["broken"] and not mm[0]["broken_after"] \
            and any(o[0] == "exc" and o[1] == "TimeoutError" for o in mm[0]["outcomes"]):
        # finding F-a on real processes: the executor was released without waiting, every worker idled out while work was still
        # pending, nobody is left to respawn one
        preds.append("all_workers_left_after_executor_released_with_pending")
    return preds


def real_shard(seed, n, tier="quick"):
    import json
    import hypothesis
    from hypothesis import given, settings, HealthCheck, Phase, strategies as st
    from real import runner
    from vlib.common import Acc, HarnessError

    acc = Acc()
    fails = []
    base = runner.workdir("c05real")
    phases = [Phase.generate] if tier == "quick" else [Phase.generate, Phase.shrink]
    task = st.one_of(st.tuples(st.just("echo")), st.tuples(st.just("nap"), st.sampled_from([0.02, 0.3])),
                     st.tuples(st.just("big"), st.sampled_from([1000, 200000])))

    @hypothesis.seed(seed)
    @settings(max_examples=n, database=None, deadline=None, suppress_health_check=list(HealthCheck), report_multiple_bugs=False,
              phases=phases)
    @given(st.integers(1, 4), st.sampled_from([None, 0.05, 0.3, 20]), st.lists(task, min_size=1, max_size=10),
           st.sampled_from(["wait", "nowait", "with", "del"]),
           st.sampled_from(["mgr.shutdown_workers", "mgr.join", "mgr.after_wait", "worker.before_announce", "worker.announced"]),
           st.integers(1, 3), st.sampled_from([100, 400, 900]))
    def t(workers, timeout, tasks, form, point, nth, ms):
        role = "worker" if point.startswith("worker") else "parent"
        prog = {"workers": workers, "timeout": timeout, "tasks": [list(x) for x in tasks], "form": form,
                "plan": [{"point": point, "role": role, "nth": nth, "action": f"sleep:{ms}"}]}
        res, p = runner.run_driver("drv_c05.py", prog, base, timeout=240,
                                   env_extra={"LOKY_VERIF_PLAN": json.dumps(prog["plan"]), "LOKY_VERIF_DIR": "."}, hooks=True)
        res = runner.finish(res, p)
        case = {"engine": "real", "prog": prog}
        v = real_oracle(prog, res["out"])
        if v and v[0][0] == "driver_incomplete":
            if res["timed_out"]:
                v = [("shutdown_hangs", f"driver did not finish within 240 s; plan {prog['plan']}, form {form}; err={res['err'][-300:]}")]
            else:
                raise HarnessError(f"C05 real driver incomplete rc={res['rc']}: {res['err'][-800:]} prog={prog}")
        if not fails:
            acc.case(case, len(tasks) >= 2)
            acc.count("real_shutdown_cases")
            acc.count("real_form:" + form)
            acc.count("real_point:" + point)
        if v:
            preds = real_preds(prog, res["out"])
            from vlib import findings
            fid = findings.match(ID, {"kind": v[0][0], "predicates": preds})
            if fid is not None:
                acc.count(f"known_hit:{fid}")      # reported through the finding's own replay; the search goes on
                return
            fails.append({"kind": v[0][0], "detail": v[0][1], "case": case, "where": "real", "predicates": preds})
            raise AssertionError(v[0][0])

    try:
        t()
    except BaseException:
        if not fails:
            raise
    finally:
        import shutil
        shutil.rmtree(base, ignore_errors=True)
    if fails:
        acc.violations.append(fails[-1])
    return acc


def run(tier, seed):
    from vlib import common
    from vlib.shards import run_jobs
    acc = _sim_run(tier, seed)
    nr = 48 if tier == "quick" else 640
    a2, _ = run_jobs([{"module": "props.c05", "func": "real_shard",
                       "kwargs": {"seed": common.derive_seed(seed, ID, "real", i), "n": nr // 16, "tier": tier}} for i in range(16)],
                     tag="c05real", timeout_s=1500 if tier == "quick" else 7200)
    acc.merge(a2, sample_cap=10)
    return acc


def replay(case, verbose=False):
    if case.get("engine") == "real":
        import json
        import shutil
        from real import runner
        base = runner.workdir("c05replay")
        prog = case["prog"]
        res, p = runner.run_driver("drv_c05.py", prog, base, timeout=240,
                                   env_extra={"LOKY_VERIF_PLAN": json.dumps(prog["plan"]), "LOKY_VERIF_DIR": "."}, hooks=True)
        res = runner.finish(res, p)
        if verbose:
            print(res["out"], res["err"][-400:])
        v = real_oracle(prog, res["out"])
        shutil.rmtree(base, ignore_errors=True)
        preds = real_preds(prog, res["out"])
        return [{"kind": k, "detail": d, "case": case, "predicates": preds} for k, d in v]
    return _sim_replay(case, verbose)
