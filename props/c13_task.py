"""Child-side helpers for the C13 REAL check."""
import os
import time


def use(obj, kind, hold):
    """Runs in a LokyProcess child on a pickled copy of the primitive."""
    if kind in ("Lock", "RLock", "Semaphore", "BoundedSemaphore", "NamedSem"):
        obj.acquire()
        time.sleep(hold)
        obj.release()
    elif kind == "Condition":
        with obj:
            obj.notify_all()
    elif kind == "Event":
        obj.set()
    elif kind in ("Queue", "SimpleQueue"):
        obj.put(os.getpid())
    return 0


def ident(x):
    return x


def die(code):
    os._exit(code)
