"""C09 - get_reusable_executor always returns a live, correctly configured singleton (SIM engine + REAL confirming part)."""
from sim import oracles, strategies
from props._simprop import install

ID = "C09"
RULE = (
    "Profile 'history': one thread runs a generated history of get_reusable_executor(max_workers, timeout, reuse in "
    "{auto, True, False}, kill_workers, initializer) calls interleaved with submits, worker crashes (a task that kills "
    "its worker), shutdown(), shutdown(kill_workers=True), idle periods past the timeout; a sequential reference model "
    "(previous instance healthy and reuse allows it <=> same object) decides identity; new instances must have a "
    "strictly larger executor_id, the requested size, and the previous instance's workers must all be gone at return; "
    "an instance that was broken/shut down when the call began is never returned. Profile 'race': 2-3 threads call "
    "get(max_workers=m_i) concurrently (other arguments equal) and submit; every submit is accepted, every task "
    "completes with its own outcome, ids stay monotonic. Non-trivial = >= 2 get calls of which one replaced or resized "
    "the instance (history), or >= 2 threads with different max_workers (race). REAL part: the same sequential histories on "
    "real processes (factory calls, echo tasks, tasks that kill their worker, idle workers killed from outside with SIGKILL/"
    "SIGSEGV, shutdowns with and without wait/kill_workers), judged by the same reference model from /proc (liveness of the "
    "registered and of the previous instance's workers) and the executors' flags."
)


def profile(tier):
    return strategies.profile(shape="history_get", timeouts=[10, 10, 0.5, None, 1e-3], max_ops=9, cbget=True, idle_death=True, max_faults=1)


def sweep_profile(tier):
    return strategies.profile(shape="history_get", max_faults=0, timeouts=[10, None, 0.5], max_ops=4, max_workers=2, cbget=True,
                              schedule_kinds=["default"])


def race(tier):
    return strategies.profile(shape="race_get", max_faults=0, timeouts=[10, None, 0.5, 1e-3])


def _is_race(H):
    return sum(1 for ops in H.case["program"] if any(op[0] == "get" for op in ops)) >= 2


def nontrivial(H):
    if _is_race(H):
        ms = {op[1]["max_workers"] for ops in H.case["program"] for op in ops if op[0] == "get"}
        return len(ms) >= 2
    return len(H.get_log) >= 2 and any((not g["same"]) or g["prev_max_workers"] != g["requested"] for g in H.get_log[1:])


def classify(acc, H):
    for g in H.get_log:
        acc.count("get:" + ("first" if g["prev_flags"] is None else "same" if g["same"] else "replaced"))
        if g["prev_flags"] is not None:
            acc.count("get_prev:" + ("broken" if g["prev_flags"][0] else "shutdown" if g["prev_flags"][1] else "healthy"))


def oracle(H):
    v = oracles.c09(H)
    if _is_race(H):
        v += oracles.c09_work(H)
    v += oracles.liveness(H)       # incl. the probe task submitted on the returned instance: it must complete
    v += oracles.c09_probe(H)
    return v


SWEEP = (8, 100)
install(globals(), ID, 3500, 40000, profiles=[("profile", 0.6), ("race", 0.4)])

_sim_run = run
_sim_replay = replay


# ----------------------------------------------------------------------------- REAL confirming part
def real_oracle(prog, out):
    m = [o for o in out if "log" in o]
    if not m:
        return [("driver_incomplete", f"{out[-2:]}")]
    v = []
    created_timeout = None
    ids = []
    usable = False
    for k, r in enumerate(m[0]["log"]):
        op = r["op"]
        if "raised" in r:
            if op[0] == "get":
                v.append(("factory_call_raised", f"op {k} get_reusable_executor({op[1]}) raised {r['raised']}"))
                usable = False
            elif op[0] in ("echo", "crash") and usable:
                v.append(("submit_refused", f"op {k} {op} on the executor just obtained from the factory raised {r['raised']}"))
            elif op[0] == "shutdown":
                v.append(("shutdown_raised", f"op {k} {op}: {r['raised']}"))
            continue
        if op[0] == "get":
            a, b, af = op[1], r["before"], r["after"]
            healthy = b is not None and not b["broken"] and not b["shutdown"]
            same_args = created_timeout is not None and created_timeout[0] == a["timeout"]
            expect_same = healthy and (a["reuse"] is True or (a["reuse"] == "auto" and same_args))
            same = b is not None and af["obj"] == b["obj"]
            if af["broken"] or af["shutdown"]:
                v.append(("unhealthy_executor_returned", f"op {k}: returned executor has broken={af['broken']} shutdown={af['shutdown']}"))
            if same != expect_same:
                v.append(("wrong_identity", f"op {k} get({a}): previous instance {b}; expected {'the same' if expect_same else 'a fresh'} "
                          f"instance, got {'the same' if same else 'a fresh'} one ({af})"))
            if not same:
                if ids and af["executor_id"] <= max(ids):
                    v.append(("executor_id_not_increasing", f"op {k}: new id {af['executor_id']} after {ids}"))
                if r["prev_workers_alive_at_return"]:
                    v.append(("previous_instance_not_shut_down", f"op {k}: workers {r['prev_workers_alive_at_return']} of the replaced "
                              f"instance were still alive when the factory returned the new one"))
                created_timeout = [a["timeout"]]
                ids.append(af["executor_id"])
            if af["max_workers"] != a["max_workers"]:
                v.append(("wrong_size", f"op {k}: requested {a['max_workers']}, _max_workers {af['max_workers']}"))
            if same and b["started"] and len(af["live"]) != a["max_workers"] and (created_timeout[0] is None or created_timeout[0] >= 20):
                v.append(("wrong_number_of_live_workers", f"op {k}: requested {a['max_workers']}, live workers {af['live']} "
                          f"(registered {af['registered']}; no idle time-out possible)"))
            if af["registered"] != af["live"]:
                v.append(("dead_worker_in_returned_executor", f"op {k}: registered {af['registered']}, alive {af['live']}"))
            usable = True
        elif op[0] == "echo":
            if usable and r["out"] != ["val", r["tok"]]:
                v.append(("task_on_returned_executor_failed", f"op {k}: echo({r['tok']}) on the executor obtained from the factory ended with {r['out']}"))
        elif op[0] == "crash":
            if usable and not (r["out"][0] == "exc" and "BrokenProcessPool" in r["out"][2]):
                v.append(("crash_not_reported", f"op {k}: {r['out']}"))
            usable = False
        elif op[0] == "ext_kill":
            if "victim" in r and r["flagged_after"] is None:
                v.append(("death_not_detected", f"op {k}: idle worker {r['victim']} killed from outside, executor not flagged broken within 10 s"))
            if "victim" in r:
                usable = False
        elif op[0] == "shutdown":
            usable = False
    return v


def real_shard(seed, n, tier="quick"):
    import hypothesis
    from hypothesis import given, settings, HealthCheck, Phase, strategies as st
    from real import runner
    from vlib.common import Acc, HarnessError

    acc = Acc()
    fails = []
    base = runner.workdir("c09real")
    phases = [Phase.generate] if tier == "quick" else [Phase.generate, Phase.shrink]
    get = st.fixed_dictionaries({"max_workers": st.integers(1, 3), "timeout": st.sampled_from([30, 30, 30, None, 25]),
                                 "reuse": st.sampled_from(["auto", "auto", "auto", True, False]), "kill_workers": st.sampled_from([False, False, True])})
    op = st.one_of(st.tuples(st.just("get"), get), st.tuples(st.just("get"), get), st.tuples(st.just("echo")), st.tuples(st.just("echo")),
                   st.tuples(st.just("crash"), st.sampled_from([3, -9, -11])),
                   st.tuples(st.just("ext_kill"), st.integers(0, 5), st.sampled_from([9, 11])),
                   st.tuples(st.just("ext_kill"), st.integers(0, 5), st.sampled_from([9, 11])),
                   st.tuples(st.just("shutdown"), st.booleans(), st.booleans()), st.tuples(st.just("idle"), st.sampled_from([0.05, 0.4])))

    @hypothesis.seed(seed)
    @settings(max_examples=n, database=None, deadline=None, suppress_health_check=list(HealthCheck), report_multiple_bugs=False,
              phases=phases)
    @given(get, st.lists(op, min_size=2, max_size=9), get)
    def t(first, ops, last):
        prog = {"ops": [["get", first]] + [list(o) for o in ops] + [["get", last], ["echo"]]}
        res = runner.run("drv_c09.py", prog, base, timeout=300)
        case = {"engine": "real", "prog": prog}
        v = real_oracle(prog, res["out"])
        if v and v[0][0] == "driver_incomplete":
            if res["timed_out"]:
                v = [("history_hangs", f"the driver did not finish within 300 s; err={res['err'][-300:]}")]
            else:
                raise HarnessError(f"C09 real driver incomplete rc={res['rc']}: {res['err'][-800:]} prog={prog}")
        if not fails:
            kinds = [o[0] for o in prog["ops"]]
            acc.case(case, kinds.count("get") >= 3 and any(k in kinds for k in ("crash", "ext_kill", "shutdown")))
            acc.count("real_history_cases")
            for k in sorted(set(kinds)):
                acc.count("real_op:" + k)
        if v:
            fails.append({"kind": v[0][0], "detail": v[0][1], "case": case, "where": "real:" + v[0][0]})
            raise AssertionError(v[0][0])

    try:
        t()
    except BaseException:
        if not fails:
            raise
    finally:
        import shutil
        shutil.rmtree(base, ignore_errors=True)
    if fails:
        acc.violations.append(fails[-1])
    return acc


def run(tier, seed):
    from vlib import common
    from vlib.shards import run_jobs
    acc = _sim_run(tier, seed)
    nr = 64 if tier == "quick" else 960
    a2, _ = run_jobs([{"module": "props.c09", "func": "real_shard",
                       "kwargs": {"seed": common.derive_seed(seed, ID, "real", i), "n": nr // 16, "tier": tier}} for i in range(16)],
                     tag="c09real", timeout_s=1500 if tier == "quick" else 7200)
    acc.merge(a2, sample_cap=10)
    return acc


def replay(case, verbose=False):
    if case.get("engine") == "real":
        import shutil
        from real import runner
        base = runner.workdir("c09replay")
        res = runner.run("drv_c09.py", case["prog"], base, timeout=300)
        if verbose:
            for o in res["out"]:
                for r in o.get("log", []):
                    print(" ", r)
            print(res["err"][-600:])
        v = real_oracle(case["prog"], res["out"])
        shutil.rmtree(base, ignore_errors=True)
        return [{"kind": k, "detail": d, "case": case, "predicates": []} for k, d in v]
    return _sim_replay(case, verbose)
