"""C09 - get_reusable_executor always returns a live, correctly configured singleton (SIM engine)."""
from sim import oracles, strategies
from props._simprop import install

ID = "C09"
RULE = (
    "Profile 'history': one thread runs a generated history of get_reusable_executor(max_workers, timeout, reuse in "
    "{auto, True, False}, kill_workers, initializer) calls interleaved with submits, worker crashes (a task that kills "
    "its worker), shutdown(), shutdown(kill_workers=True), idle periods past the timeout; a sequential reference model "
    "(previous instance healthy and reuse allows it <=> same object) decides identity; new instances must have a "
    "strictly larger executor_id, the requested size, and the previous instance's workers must all be gone at return; "
    "an instance that was broken/shut down when the call began is never returned. Profile 'race': 2-3 threads call "
    "get(max_workers=m_i) concurrently (other arguments equal) and submit; every submit is accepted, every task "
    "completes with its own outcome, ids stay monotonic. Non-trivial = >= 2 get calls of which one replaced or resized "
    "the instance (history), or >= 2 threads with different max_workers (race)."
)


def profile(tier):
    return strategies.profile(shape="history_get", timeouts=[10, 10, 0.5, None, 1e-3], max_ops=9, cbget=True, idle_death=True, max_faults=1)


def sweep_profile(tier):
    return strategies.profile(shape="history_get", max_faults=0, timeouts=[10, None, 0.5], max_ops=4, max_workers=2, cbget=True,
                              schedule_kinds=["default"])


def race(tier):
    return strategies.profile(shape="race_get", max_faults=0, timeouts=[10, None, 0.5, 1e-3])


def _is_race(H):
    return sum(1 for ops in H.case["program"] if any(op[0] == "get" for op in ops)) >= 2


def nontrivial(H):
    if _is_race(H):
        ms = {op[1]["max_workers"] for ops in H.case["program"] for op in ops if op[0] == "get"}
        return len(ms) >= 2
    return len(H.get_log) >= 2 and any((not g["same"]) or g["prev_max_workers"] != g["requested"] for g in H.get_log[1:])


def classify(acc, H):
    for g in H.get_log:
        acc.count("get:" + ("first" if g["prev_flags"] is None else "same" if g["same"] else "replaced"))
        if g["prev_flags"] is not None:
            acc.count("get_prev:" + ("broken" if g["prev_flags"][0] else "shutdown" if g["prev_flags"][1] else "healthy"))


def oracle(H):
    v = oracles.c09(H)
    if _is_race(H):
        v += oracles.c09_work(H)
    v += oracles.liveness(H)       # incl. the probe task submitted on the returned instance: it must complete
    v += oracles.c09_probe(H)
    return v


SWEEP = (8, 100)
install(globals(), ID, 3500, 40000, profiles=[("profile", 0.6), ("race", 0.4)])
