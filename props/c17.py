"""C17 - cpu_count is the minimum of all applicable limits and at least 1.

PURE engine: the real `loky.backend.context.cpu_count` runs with every input it
reads substituted in its module namespace (os, open, subprocess, psutil,
physical_cores_cache); oracle = the statement's formula with exact integer
ceiling, written independently below. Finite grid (exhaustive) + Hypothesis tails.
"""
import io
import itertools
import sys
import types
import warnings
from unittest import mock

from vlib import common
from vlib.common import Acc, HarnessError
from vlib.shards import run_jobs

ID = "C17"
LEVEL = "exploration"
RULE = (
    "Configurations = (os.cpu_count result, affinity source+size, cgroup file layout+quota/period, "
    "LOKY_MAX_CPU_COUNT, physical-core probe outcome, only_physical_cores). Grid part: full itertools.product "
    "of the listed value sets (every point evaluated once => all distinct). Hypothesis part: large numeric tails. "
    "Non-trivial = some user limit (affinity/cgroup/override) differs from the OS count, or the physical-core "
    "detection path is reached. distinct_nontrivial counts distinct config hashes among those."
)
ASSUMPTIONS = [
    "cpu_count reads its inputs only through os.cpu_count, os.sched_getaffinity/psutil, os.path.exists+open on the "
    "three cgroup paths, os.environ, subprocess.run and physical_cores_cache (checked: an unexpected path or command "
    "raises a harness error)",
    "platform linux (win32 clamp and darwin/win32 probes not explored)",
    "quota < 2**53 so float division in the implementation is exact enough for ceil (generator stays <= 2**40)",
]

V2 = "/sys/fs/cgroup/cpu.max"
V1Q = "/sys/fs/cgroup/cpu/cpu.cfs_quota_us"
V1P = "/sys/fs/cgroup/cpu/cpu.cfs_period_us"


def exhaustive(tier):
    return None  # grid part is exhaustive, hypothesis part is not; stated in coverage.extra


# ----------------------------------------------------------------------------
# reference model (from the statement)
def ceil_div(a, b):
    return -((-a) // b)


def reference(cfg):
    os_count = cfg["os_count"] or 1
    limits = []
    aff = cfg["affinity"]
    if aff[0] in ("sched", "psutil_nie", "psutil_noattr"):
        limits.append(aff[1])
    cg = cfg["cgroup"]
    q = p = None
    if cg[0] in ("v2", "v2_and_v1"):
        q, p = cg[1], cg[2]
    elif cg[0] == "v1":
        q, p = cg[1], cg[2]
    if q is not None and q != "max" and int(q) > 0 and int(p) > 0:
        limits.append(ceil_div(int(q), int(p)))
    if cfg["override"] is not None:
        limits.append(cfg["override"])
    agg = max(1, min([os_count] + limits))
    if not cfg["only_physical"]:
        return agg, 0, agg
    user_limited = bool(limits) and min(limits) < os_count
    if user_limited:
        return agg, 0, agg
    pr = cfg["probe"]
    # (value first call, warnings first call, value second call)
    if pr[0] == "cached":
        return pr[1], 0, pr[1]
    if pr[0] == "cached_notfound":
        return agg, 0, agg
    if pr[0] in ("lscpu", "cpuinfo") and pr[1] >= 1:
        return pr[1], 0, pr[1]
    # zero or failing probe
    return agg, 1, agg


# ----------------------------------------------------------------------------
# substitution of inputs
class _FakeCompleted:
    def __init__(self, out):
        self.stdout = out


def evaluate(cfg):
    """Run the real cpu_count twice under cfg. Returns (v1, nwarn1, v2, nwarn2)."""
    common.add_repo_to_path()
    from loky.backend import context as ctx

    for name in ("cpu_count", "_cpu_count_user", "_cpu_count_cgroup", "_cpu_count_affinity",
                 "_count_physical_cores", "physical_cores_cache", "os", "subprocess"):
        if not hasattr(ctx, name):
            raise HarnessError(f"substitution point loky.backend.context.{name} missing")

    files = {}
    cg = cfg["cgroup"]
    if cg[0] == "v2":
        files[V2] = f"{cg[1]} {cg[2]}\n"
    elif cg[0] == "v1":
        files[V1Q] = f"{cg[1]}\n"
        files[V1P] = f"{cg[2]}\n"
    elif cg[0] == "v1_quota_only":
        files[V1Q] = f"{cg[1]}\n"
    elif cg[0] == "v2_and_v1":
        files[V2] = f"{cg[1]} {cg[2]}\n"
        files[V1Q] = "100000\n"
        files[V1P] = "100000\n"

    def exists(path):
        if path not in (V2, V1Q, V1P):
            raise HarnessError(f"unexpected os.path.exists({path!r})")
        return path in files

    def fake_open(path, *a, **k):
        if path not in files:
            raise HarnessError(f"unexpected open({path!r})")
        return io.StringIO(files[path])

    environ = {}
    if cfg["override"] is not None:
        environ["LOKY_MAX_CPU_COUNT"] = str(cfg["override"])
    fos = types.SimpleNamespace(
        cpu_count=lambda: cfg["os_count"],
        path=types.SimpleNamespace(exists=exists),
        environ=environ,
    )
    aff = cfg["affinity"]
    if aff[0] == "sched":
        fos.sched_getaffinity = lambda pid: set(range(aff[1]))
    elif aff[0] in ("psutil_nie", "none_nie"):
        def _nie(pid):
            raise NotImplementedError
        fos.sched_getaffinity = _nie

    class _P:
        pass

    if aff[0] in ("psutil_nie", "psutil_noattr"):
        _P.cpu_affinity = lambda self: list(range(aff[1]))
    fpsutil = types.SimpleNamespace(Process=_P)
    if aff[0] == "nopsutil":
        fpsutil = None  # import psutil -> ImportError

    pr = cfg["probe"]

    def run(cmd, **kw):
        if cmd[0] == "lscpu":
            if pr[0] == "lscpu" or pr[0] == "zero":
                n = pr[1] if pr[0] == "lscpu" else 0
                lines = ["# comment", "# Core"] + [str(i % n) for i in range(2 * n)] if n else ["# c"]
                return _FakeCompleted("\n".join(lines) + "\n")
            raise OSError("lscpu not found")
        if cmd[0] == "cat":
            if pr[0] == "cpuinfo":
                lines = []
                for i in range(2 * pr[1]):
                    lines += [f"processor : {i}", f"core id : {i % pr[1]}"]
                return _FakeCompleted("\n".join(lines) + "\n")
            raise OSError("no /proc/cpuinfo")
        raise HarnessError(f"unexpected subprocess.run({cmd!r})")

    fsub = types.SimpleNamespace(run=run)
    cache = None
    if pr[0] == "cached":
        cache = pr[1]
    elif pr[0] == "cached_notfound":
        cache = "not found"
    ftb = types.SimpleNamespace(print_tb=lambda *a, **k: None)

    res = []
    with mock.patch.object(ctx, "os", fos), mock.patch.object(ctx, "subprocess", fsub), \
            mock.patch.object(ctx, "open", fake_open, create=True), \
            mock.patch.object(ctx, "physical_cores_cache", cache), \
            mock.patch.object(ctx, "traceback", ftb), \
            mock.patch.dict(sys.modules, {"psutil": fpsutil}):
        for _ in range(2):
            with warnings.catch_warnings(record=True) as w:
                warnings.simplefilter("always")
                v = ctx.cpu_count(only_physical_cores=cfg["only_physical"])
            nw = sum(1 for x in w if "physical cores" in str(x.message))
            res += [v, nw]
    return tuple(res)


def check_one(cfg):
    """Returns None or a violation dict."""
    exp_v, exp_w, exp_v2 = reference(cfg)
    try:
        v1, w1, v2, w2 = evaluate(cfg)
    except HarnessError:
        raise
    except Exception as e:  # the function must not raise on any of these configurations
        return {"kind": "raised", "detail": f"{type(e).__name__}: {e}", "case": cfg, "where": type(e).__name__}
    if v1 != exp_v or v2 != exp_v2:
        return {"kind": "wrong_value", "detail": f"got {v1},{v2} expected {exp_v},{exp_v2}", "case": cfg,
                "where": cfg["cgroup"][0] + "/" + cfg["affinity"][0]}
    if cfg["only_physical"] and (w1 != exp_w or w2 != 0):
        return {"kind": "warning_count", "detail": f"warnings first/second call {w1}/{w2}, expected {exp_w}/0",
                "case": cfg, "where": cfg["probe"][0]}
    return None


def nontrivial(cfg):
    os_count = cfg["os_count"] or 1
    if cfg["affinity"][0] in ("sched", "psutil_nie", "psutil_noattr") and cfg["affinity"][1] != os_count:
        return True
    if cfg["cgroup"][0] not in ("none",):
        return True
    if cfg["override"] is not None and cfg["override"] != os_count:
        return True
    return cfg["only_physical"]


# ----------------------------------------------------------------------------
def grid(tier):
    os_counts = [None, 1, 2, 4, 16]
    affs = [("none",), ("none_nie",), ("nopsutil",)] + [(k, n) for k in ("sched", "psutil_nie", "psutil_noattr")
                                                         for n in (1, 2, 4, 16, 32)]
    cgs = [("none",), ("v2", "max", 100000), ("v1", -1, 100000), ("v1_quota_only", 200000)]
    ratios = [(50000, 100000), (100000, 100000), (150000, 100000), (200000, 100000), (300001, 100000),
              (799, 100), (10000, 100), (1, 3), (7, 3), (3, 1)]
    for q, p in ratios:
        cgs += [("v2", q, p), ("v1", q, p)]
    cgs += [("v2_and_v1", 250000, 100000), ("v2_and_v1", "max", 100000), ("v1", 0, 100000)]
    overrides = [None, -1, 0, 1, 3, 64]
    probes = [("lscpu", 1), ("lscpu", 2), ("lscpu", 8), ("cpuinfo", 2), ("cpuinfo", 8), ("zero",), ("raises",),
              ("cached", 2), ("cached", 8), ("cached_notfound",)]
    if tier == "quick":
        affs = [a for a in affs if a[0] != "psutil_noattr"]
    for oc, af, cg, ov, phys in itertools.product(os_counts, affs, cgs, overrides, (False, True)):
        prs = probes if phys else [("lscpu", 2)]
        for pr in prs:
            yield {"os_count": oc, "affinity": list(af), "cgroup": list(cg), "override": ov,
                   "probe": list(pr), "only_physical": phys}


def shard_grid(tier, shard, nshards):
    acc = Acc()
    for i, cfg in enumerate(grid(tier)):
        if i % nshards != shard:
            continue
        v = check_one(cfg)
        nt = nontrivial(cfg)
        acc.case(cfg, nt, sample_cap=1 if shard else 3)
        acc.count("grid_points")
        acc.count("only_physical" if cfg["only_physical"] else "logical")
        acc.count("cgroup:" + cfg["cgroup"][0])
        if v:
            acc.violations.append(v)
            if len(acc.violations) > 20:
                break
    return acc


def shard_hyp(seed, n):
    import hypothesis
    from hypothesis import given, settings, strategies as st, HealthCheck

    acc = Acc()
    counts = st.one_of(st.none(), st.integers(1, 4096))
    affs = st.one_of(
        st.sampled_from([["none"], ["none_nie"], ["nopsutil"]]),
        st.tuples(st.sampled_from(["sched", "psutil_nie", "psutil_noattr"]), st.integers(1, 4096)).map(list),
    )
    pos = st.integers(1, 2 ** 40)
    per = st.integers(1000, 1000000)
    cgs = st.one_of(
        st.just(["none"]), st.tuples(st.just("v2"), st.just("max"), per).map(list),
        st.tuples(st.sampled_from(["v2", "v1", "v2_and_v1"]), pos, per).map(list),
        st.tuples(st.just("v1"), st.integers(-5, 0), per).map(list),
        # quota that is an exact multiple / one above a multiple of the period: ceil boundary
        st.tuples(st.sampled_from(["v2", "v1"]), st.integers(1, 2 ** 20), per, st.integers(0, 1)).map(
            lambda t: [t[0], t[1] * t[2] + t[3], t[2]]),
        st.tuples(st.just("v1_quota_only"), pos).map(list),
    )
    ovs = st.one_of(st.none(), st.integers(-2 ** 31, 2 ** 31))
    probes = st.one_of(
        st.tuples(st.sampled_from(["lscpu", "cpuinfo", "cached"]), st.integers(1, 512)).map(list),
        st.sampled_from([["zero"], ["raises"], ["cached_notfound"]]),
    )
    cfgs = st.fixed_dictionaries({"os_count": counts, "affinity": affs, "cgroup": cgs, "override": ovs,
                                  "probe": probes, "only_physical": st.booleans()})
    failing = []

    @hypothesis.seed(seed)
    @settings(max_examples=n, database=None, deadline=None, report_multiple_bugs=False,
              suppress_health_check=list(HealthCheck))
    @given(cfgs)
    def t(cfg):
        v = check_one(cfg)
        acc.case(cfg, nontrivial(cfg))
        acc.count("hyp_cases")
        if v:
            failing.append(v)
            raise AssertionError(v["detail"])

    try:
        t()
    except AssertionError:
        acc.violations.append(failing[-1])  # last failing = shrunk example
    return acc


def run(tier, seed):
    nsh = 16
    jobs = [{"module": "props.c17", "func": "shard_grid", "kwargs": {"tier": tier, "shard": i, "nshards": nsh}}
            for i in range(nsh)]
    nh = 2000 if tier == "quick" else 400000
    jobs += [{"module": "props.c17", "func": "shard_hyp",
              "kwargs": {"seed": common.derive_seed(seed, ID, "hyp", i), "n": nh // 8}} for i in range(8)]
    acc, not_run = run_jobs(jobs, tag="c17")
    if not_run:
        acc.notes.append(f"{not_run} shards not run (wall-clock cap)")
    return acc


def extra_evidence(acc, tier):
    return {"exhaustive": False, "grid_exhaustive": True,
            "explanation": "the grid (histograms.grid_points points) is enumerated completely on every run; "
                           "the hypothesis tails (histograms.hyp_cases cases) are sampled"}


def replay(case, verbose=False):
    v = check_one(case)
    if verbose:
        print("config:", case, "\nreference:", reference(case), "\nimplementation:", evaluate(case))
    return [v] if v else []
