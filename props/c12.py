"""C12 - one resource tracker serves the whole process tree and is self-healing (REAL)."""
import json
import os
import signal
import subprocess
import time

from vlib import common
from vlib.common import Acc, HarnessError

ID = "C12"
RULE = (
    "Mode 'tree': a generated tree of loky processes (depth 0-3, fan-out 1-2, start methods loky / loky_init_main), each "
    "member recording the tracker pid and the pipe behind its tracker descriptor and registering a file of its own; the "
    "harness then ends the members in a generated order with generated causes (return, uncaught exception, os._exit, "
    "SIGTERM, SIGKILL) while sending SIGINT/SIGTERM to the tracker at generated moments (including a burst right after "
    "it appears). Oracle: every member reports the root's tracker pid and the same pipe; the tracker survives the "
    "signals; the canary file registered by the root and every member's file exist while any member lives and are gone "
    "(tracker exited) once none does. Mode 'heal': the root SIGKILLs its tracker 1-3 times; each next tracked "
    "operation must succeed with a new tracker pid and the relaunch warning, and the last tracker must work. "
    "Non-trivial = a tree with >= 2 levels or a non-clean death, or >= 1 tracker kill."
)
ASSUMPTIONS = ["signals 'during start-up' of the tracker are sampled by timing (a burst sent as soon as the tracker pid is known), "
               "there is no hook inside the tracker's own start-up", "Linux /proc for liveness and pipe identity"]


def _alive(pid):
    try:
        with open(f"/proc/{pid}/stat") as fh:
            return fh.read().split(")")[-1].split()[0] != "Z"
    except OSError:
        return False


def _paths(tree, path="r"):
    out = [(path, tree)]
    for i, c in enumerate(tree.get("children", [])):
        out += _paths(c, f"{path}{i}")
    return out


def execute(prog, base):
    from real import runner
    d = os.path.join(base, f"t{time.time_ns()}")
    os.makedirs(d)
    pf = os.path.join(d, "prog.json")
    with open(pf, "w") as fh:
        json.dump(prog, fh)
    env = dict(os.environ, PYTHONPATH=os.pathsep.join([common.REPO, common.VERIF]), LOKY_REPO=common.REPO, PYTHONHASHSEED="0")
    outf, errf = os.path.join(d, "out.jsonl"), os.path.join(d, "err.txt")
    with open(outf, "w") as out, open(errf, "w") as err:
        p = subprocess.Popen([common.PY, "-u", os.path.join(runner.REAL_DIR, "drv_c12.py"), pf, d], stdout=out, stderr=err,
                             stdin=subprocess.DEVNULL, env=env, cwd=d, start_new_session=True)
    res = {"rc": None, "timed_out": False, "dir": d, "pid": p.pid, "events": []}
    ev = res["events"]
    try:
        if prog["mode"] == "heal":
            try:
                res["rc"] = p.wait(timeout=120)
            except subprocess.TimeoutExpired:
                res["timed_out"] = True
            return runner.finish(res, p)
        members = _paths(prog["tree"])
        # wait for the root line (tracker pid), optionally fire the start-up burst, then wait for every member's record
        t0 = time.time()
        root = None
        while time.time() - t0 < 60 and root is None:
            for line in open(outf).read().splitlines():
                if line.startswith("{") and '"root"' in line:
                    root = json.loads(line)
            time.sleep(0.005)
        if root is None:
            res["timed_out"] = True
            return runner.finish(res, p)
        tracker = root["tracker"]
        res["tracker"] = tracker
        for s in prog.get("burst", []):
            try:
                os.kill(tracker, s)
                ev.append(["signal", s, "burst"])
            except ProcessLookupError:
                ev.append(["tracker_gone_at_burst", s])
        recs = {}
        t0 = time.time()
        while time.time() - t0 < 90 and len(recs) < len(members):
            for path, _ in members:
                f = os.path.join(d, f"node_{path}.json")
                if path not in recs and os.path.exists(f):
                    recs[path] = json.load(open(f))
            time.sleep(0.01)
        res["recs"] = recs
        res["imports"] = [json.load(open(os.path.join(d, f))) for f in sorted(os.listdir(d)) if f.startswith("import_") and f.endswith(".json")]
        if len(recs) < len(members):
            res["timed_out"] = True
            return runner.finish(res, p)
        files = [root["canary"]] + [os.path.join(d, f"res_{path}.txt") for path, _ in members]
        order = prog["order"]
        sigs = list(prog.get("signals", []))
        alive = {path: recs[path]["pid"] for path, _ in members}
        for k, idx in enumerate(order):
            path = members[idx % len(members)][0]
            if path not in alive:
                continue
            if sigs:
                s = sigs.pop(0)
                try:
                    os.kill(tracker, s)
                    ev.append(["signal", s, k])
                except ProcessLookupError:
                    ev.append(["tracker_gone_at_signal", s, k])
            time.sleep(0.03)
            # observation while members live: tracker alive, every file present
            ev.append(["obs", k, _alive(tracker), [os.path.basename(f) for f in files if not os.path.exists(f)]])
            open(os.path.join(d, f"die_{path}"), "w").close()
            pid = alive.pop(path)
            # (a member that ends through the interpreter's normal exit first joins its own live children: do not wait for it)
            has_live_kids = any(q != path and q.startswith(path) for q in alive)
            clean = dict(members)[path].get("death", "return") in ("return", "exception")
            t1 = time.time()
            while _alive(pid) and time.time() - t1 < (0.3 if (has_live_kids and clean) else 30):
                time.sleep(0.005)
            ev.append(["died", path, not _alive(pid)])
        for path in list(alive):
            open(os.path.join(d, f"die_{path}"), "w").close()
        # all members gone: the tracker must clean up and exit
        t1 = time.time()
        while time.time() - t1 < 30 and (_alive(tracker) or any(_alive(pid) for pid in [r["pid"] for r in recs.values()])):
            time.sleep(0.01)
        time.sleep(0.05)
        res["after"] = {"tracker_alive": _alive(tracker), "files_left": [os.path.basename(f) for f in files if os.path.exists(f)],
                        "members_alive": [r["path"] for r in recs.values() if _alive(r["pid"])]}
        try:
            res["rc"] = p.wait(timeout=20)
        except subprocess.TimeoutExpired:
            pass
        return runner.finish(res, p)
    except BaseException:
        runner.finish(res, p)
        raise


def oracle(prog, res):
    v = []
    if prog["mode"] == "heal":
        h = [o for o in res["out"] if "heal" in o]
        if not h:
            return [("driver_incomplete", f"rc={res['rc']} err={res['err'][-500:]}")]
        h = h[0]
        for i, e in enumerate(h["heal"]):
            if e["err"]:
                v.append(("tracked_operation_failed_after_tracker_death", f"kill {i + 1}: {e['err']}"))
            elif e["new_pid"] == h["pids"][i]:
                v.append(("tracker_not_relaunched", f"kill {i + 1}: pid still {e['new_pid']}"))
            elif not e["warned"]:
                v.append(("no_relaunch_warning", f"kill {i + 1}"))
            if e.get("files_missing"):
                v.append(("registered_files_cleaned_while_owner_alive", f"kill {i + 1}: files {e['files_missing']} registered by concurrent "
                          f"threads right after the tracker died vanished although their process is alive (a second tracker was "
                          f"launched and the first one saw end-of-file)"))
            c = e.get("child")
            if c is not None:
                if "error" in c:
                    v.append(("child_after_tracker_death_failed", f"kill {i + 1}: {c}"))
                elif c["tracker_pid_after_op"] != e["new_pid"] or c["relaunched_in_child"]:
                    v.append(("member_uses_another_tracker", f"kill {i + 1}: a child spawned right after the tracker died talks to tracker "
                              f"{c['tracker_pid_after_op']} (inherited {c['tracker_pid_inherited']}, relaunched in the child: "
                              f"{c['relaunched_in_child']}) while the root's tracker is {e['new_pid']}"))
        if h.get("final_err"):
            v.append(("tracked_operation_failed_after_tracker_death", f"final operation: {h['final_err']}"))
        elif not h["final_removed"]:
            v.append(("relaunched_tracker_does_not_work", "file registered with the last tracker was not removed on maybe_unlink"))
        return v
    if "recs" not in res or res.get("timed_out"):
        return [("driver_incomplete", f"records {sorted(res.get('recs', {}))} err={res['err'][-500:]}")]
    tracker = res["tracker"]
    root = res["recs"]["r"]
    for path, r in sorted(res["recs"].items()):
        if r["tracker_pid"] != tracker or r["tracker_pid_after_register"] != tracker:
            v.append(("member_uses_another_tracker", f"member {path}: tracker pid {r['tracker_pid']} / {r['tracker_pid_after_register']} "
                      f"after a tracked operation, root's tracker is {tracker}"))
        elif r["tracker_pipe"] != root["tracker_pipe"]:
            v.append(("member_holds_another_pipe", f"member {path}: {r['tracker_pipe']} vs root {root['tracker_pipe']}"))
    for imp in res.get("imports", []):
        if "error" in imp:
            v.append(("module_level_tracked_operation_failed", f"{imp}"))
        elif imp["tracker_pid_at_import"] != tracker:
            v.append(("member_uses_another_tracker", f"member pid {imp['pid']} (loky_init_main): a tracked operation at module level of the "
                      f"re-imported main script reached tracker {imp['tracker_pid_at_import']}, the root's tracker is {tracker}"))
    for e in res["events"]:
        if e[0] in ("tracker_gone_at_signal", "tracker_gone_at_burst"):
            v.append(("tracker_died_from_signal", f"{e}"))
        if e[0] == "obs" and (not e[2] or e[3]):
            v.append(("cleanup_before_last_member_gone", f"while members were alive (step {e[1]}): tracker alive={e[2]}, missing files {e[3]}"))
    a = res.get("after")
    if a is None:
        v.append(("driver_incomplete", "no final observation"))
    elif a["members_alive"]:
        v.append(("driver_incomplete", f"members still alive {a['members_alive']}"))
    elif a["tracker_alive"] or a["files_left"]:
        v.append(("no_cleanup_after_last_member", f"30 s after the last member ended: tracker alive={a['tracker_alive']}, files left {a['files_left']}"))
    return v


def real_shard(seed, n, tier="quick"):
    import hypothesis
    from hypothesis import given, settings, HealthCheck, Phase, strategies as st
    from real import runner

    acc = Acc()
    fails = []
    base = runner.workdir("c12real")
    phases = [Phase.generate] if tier == "quick" else [Phase.generate, Phase.shrink]
    death = st.sampled_from(["return", "return", "exception", "os_exit", "sigterm", "sigkill"])
    leafs = st.fixed_dictionaries({"death": death, "method": st.sampled_from(["loky", "loky", "loky_init_main"])})
    trees = st.recursive(leafs, lambda ch: st.fixed_dictionaries({"death": death, "method": st.sampled_from(["loky", "loky_init_main"]),
                                                                  "children": st.lists(ch, min_size=1, max_size=2)}), max_leaves=4)

    @st.composite
    def progs(draw):
        if draw(st.integers(0, 3)) == 0:
            return {"mode": "heal", "kills": draw(st.integers(1, 3)), "gap": draw(st.sampled_from([0.0, 0.05, 0.3])),
                    "op": draw(st.sampled_from(["register", "unregister", "spawn", "spawn", "threads", "threads"])),
                    "nthreads": draw(st.integers(2, 5)), "interrupted_relaunch": draw(st.sampled_from([False, False, True]))}
        tree = draw(trees)
        tree["death"] = "return"           # the root (driver) returns
        n_ = len(_paths(tree))
        return {"mode": "tree", "tree": tree, "order": draw(st.permutations(list(range(n_)))),
                "signals": draw(st.lists(st.sampled_from([signal.SIGINT, signal.SIGTERM]), max_size=4)),
                "burst": draw(st.lists(st.sampled_from([signal.SIGINT, signal.SIGTERM]), max_size=3))}

    @hypothesis.seed(seed)
    @settings(max_examples=n, database=None, deadline=None, suppress_health_check=list(HealthCheck), report_multiple_bugs=False,
              phases=phases)
    @given(progs())
    def t(prog):
        res = execute(prog, base)
        case = {"engine": "real", "prog": prog}
        v = oracle(prog, res)
        if v and v[0][0] == "driver_incomplete":
            raise HarnessError(f"C12 driver incomplete: {v[0][1]} prog={prog}")
        if not fails:
            if prog["mode"] == "heal":
                acc.case(case, True)
                acc.count("heal_kills", prog["kills"])
            else:
                ms = _paths(prog["tree"])
                acc.case(case, len(ms) >= 2 or any(m[1]["death"] != "return" for m in ms))
                acc.count(f"tree_members:{len(ms)}")
                acc.count("tracker_signals", len(prog["signals"]) + len(prog["burst"]))
                for _, m in ms[1:]:
                    acc.count("death:" + m["death"])
        if v:
            fails.append({"kind": v[0][0], "detail": v[0][1], "case": case, "where": "real"})
            raise AssertionError(v[0][0])

    try:
        t()
    except BaseException:
        if not fails:
            raise
    finally:
        import shutil
        shutil.rmtree(base, ignore_errors=True)
    if fails:
        acc.violations.append(fails[-1])
    return acc


def run(tier, seed):
    from vlib.shards import run_jobs
    nr = 96 if tier == "quick" else 6000
    jobs = [{"module": "props.c12", "func": "real_shard", "kwargs": {"seed": common.derive_seed(seed, ID, "r", i), "n": nr // 16, "tier": tier}}
            for i in range(16)]
    acc, not_run = run_jobs(jobs, tag="c12", timeout_s=1500 if tier == "quick" else 7200)
    if not_run:
        acc.notes.append(f"{not_run} shard processes hit the wall-clock cap")
    return acc


def replay(case, verbose=False):
    from real import runner
    import shutil
    base = runner.workdir("c12replay")
    res = execute(case["prog"], base)
    if verbose:
        print({k: v for k, v in res.items() if k not in ("err",)})
        print(res["err"][-800:])
    v = oracle(case["prog"], res)
    shutil.rmtree(base, ignore_errors=True)
    return [{"kind": k, "detail": d, "case": case} for k, d in v]
