"""Imported for the first time inside a worker: captures the environment as seen at import time."""
import os

CAPTURED = dict(os.environ)
