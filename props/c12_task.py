"""Node body for the C12 REAL check: every member of the process tree records its tracker and dies as told."""
import json
import os
import signal
import sys
import time


def node(spec, outdir, path):
    from loky.backend import resource_tracker as rt
    from loky.backend import get_context
    t = rt._resource_tracker
    rec = {"path": path, "pid": os.getpid(), "tracker_pid": t._pid, "tracker_fd": t._fd}
    try:
        rec["tracker_pipe"] = os.readlink(f"/proc/self/fd/{t._fd}")
    except OSError as e:
        rec["tracker_pipe"] = f"error:{e}"
    # a tracked operation from this member: it must reach the shared tracker
    mine = os.path.join(outdir, f"res_{path}.txt")
    open(mine, "w").close()
    rt.register(mine, "file")
    rec["tracker_pid_after_register"] = rt._resource_tracker._pid
    tmp = os.path.join(outdir, f"node_{path}.json.tmp")
    with open(tmp, "w") as fh:
        json.dump(rec, fh)
    os.replace(tmp, os.path.join(outdir, f"node_{path}.json"))
    kids = []
    for i, c in enumerate(spec.get("children", [])):
        ctx = get_context(c.get("method", "loky"))
        p = ctx.Process(target=node, args=(c, outdir, f"{path}{i}"))
        p.start()
        kids.append(p)
    # die when told (the harness writes die_<path>)
    flag = os.path.join(outdir, f"die_{path}")
    t0 = time.time()
    while not os.path.exists(flag) and time.time() - t0 < 120:
        time.sleep(0.01)
    how = spec.get("death", "return")
    if how == "os_exit":
        os._exit(0)
    if how == "sigterm":
        os.kill(os.getpid(), signal.SIGTERM)
        time.sleep(10)
    if how == "sigkill":
        os.kill(os.getpid(), signal.SIGKILL)
        time.sleep(10)
    if how == "exception":
        raise RuntimeError("member ends with an uncaught exception")
    return 0


def heal_child(report, path):
    """Child spawned right after the tracker died: performs a tracked operation and reports which tracker it talks to."""
    import warnings
    from loky.backend import resource_tracker as rt
    with warnings.catch_warnings(record=True) as wl:
        warnings.simplefilter("always")
        before = rt._resource_tracker._pid
        open(path + ".child", "w").close()
        rt.register(path + ".child", "file")
        rec = {"pid": os.getpid(), "tracker_pid_inherited": before, "tracker_pid_after_op": rt._resource_tracker._pid,
               "relaunched_in_child": any("relaunching" in str(x.message) for x in wl)}
    with open(report, "w") as fh:
        json.dump(rec, fh)
