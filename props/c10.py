"""C10 - resizing preserves submitted work and surviving workers, and terminates (SIM engine, deciding)."""
from sim import oracles, strategies
from props._simprop import install

ID = "C10"
RULE = (
    "Reusable executor; one thread runs get(old) -> submit 0-6 tasks (echo/gate/big/raise) -> get(new) repeated 1-3 "
    "times with (old, new) in [1..4]^2, worker timeout in {None, 10, 0.5, 1e-3, 0}, optionally a second thread "
    "submitting meanwhile, 0-1 abrupt worker deaths; idle timers and the death are placed by the generated schedule at "
    "every step of _resize (waiting for jobs, posting sentinels, waiting for departures, spawning, waiting for "
    "arrivals). Oracle: every get returns (else hang/livelock); without deaths every task submitted before completes "
    "with its own outcome; when no worker timed out or died during the call it returns with exactly `new` live workers "
    "of which min(live before, new) are previous pids. Non-trivial = a resize with old != new on a started executor."
)


def profile(tier):
    return strategies.profile(shape="resize", max_faults=1, fault_weights=[12, 5], timeouts=[None, None, 10, 0.5, 1e-3, 0],
                              initializers=["none", "none", "ok"], max_workers=4)


def nontrivial(H):
    return any(g["same"] and g["prev_started"] and g["prev_max_workers"] != g["requested"] for g in H.get_log)


def classify(acc, H):
    for g in H.get_log:
        if g["same"] and g["prev_max_workers"] is not None and g["prev_started"]:
            d = g["requested"] - g["prev_max_workers"]
            acc.count("resize:" + ("grow" if d > 0 else "shrink" if d < 0 else "same"))
            acc.count("resize_window_disturbed" if oracles._window_disturbed(H, g["start"], g["end"]) else "resize_window_quiet")


def oracle(H):
    return oracles.c10(H)


SWEEP = (6, 80)
install(globals(), ID, 3500, 40000)
_sim_run = run
_sim_replay = replay


# ----------------------------------------------------------------------------- REAL part (fault point resize.after_adjust)
def real_oracle(prog, out):
    m = [o for o in out if "returned" in o]
    if not m:
        return [("driver_incomplete", f"{out[-2:]}")]
    m = m[0]
    v = []
    if not m["returned"]:
        v.append(("resize_never_returns", f"get_reusable_executor(max_workers={prog['new']}) did not return within 45 s (old {prog['old']}, "
                  f"timeout {prog['timeout']}, plan {prog['plan']}, new worker dies: {prog['new_worker_dies']})"))
        return v
    if m["vals"] != list(range(prog["ntasks"])):
        v.append(("work_before_resize_lost", f"{m['vals']}"))
    if "exc" in m["res"]:
        v.append(("resize_raised", f"{m['res']['exc']} at {m['res'].get('tb')}"))
    elif not prog["new_worker_dies"] and m["after"] != [100, 101, 102]:
        v.append(("executor_unusable_after_resize", f"{m['after']}"))
    return v


def real_shard(seed, n, tier="quick"):
    import json
    import hypothesis
    from hypothesis import given, settings, HealthCheck, Phase, strategies as st
    from real import runner
    from vlib.common import Acc, HarnessError

    acc = Acc()
    fails = []
    base = runner.workdir("c10real")
    phases = [Phase.generate] if tier == "quick" else [Phase.generate, Phase.shrink]

    @hypothesis.seed(seed)
    @settings(max_examples=n, database=None, deadline=None, suppress_health_check=list(HealthCheck), report_multiple_bugs=False,
              phases=phases)
    @given(st.integers(1, 3), st.integers(1, 3), st.sampled_from([0.05, 0.2, 20, None]), st.integers(1, 4), st.booleans(), st.booleans(),
           st.sampled_from(["resize.after_adjust", "resize.after_adjust", "resize.sentinels_posted", "resize.jobs_done"]),
           st.sampled_from([300, 800, 1500]))
    def t(old, new, timeout, ntasks, idle_first, dies, point, ms):
        if old == new:
            new = old % 3 + 1
        prog = {"old": old, "new": new, "timeout": timeout, "ntasks": ntasks, "idle_first": idle_first and timeout is not None and timeout < 1,
                "new_worker_dies": dies and (new > old or (idle_first and timeout is not None and timeout < 1)), "plan": [{"point": point, "role": "parent", "nth": 1, "action": f"sleep:{ms}"}]}
        res, p = runner.run_driver("drv_c10.py", prog, base, timeout=200,
                                   env_extra={"LOKY_VERIF_PLAN": json.dumps(prog["plan"]), "LOKY_VERIF_DIR": "."}, hooks=True)
        res = runner.finish(res, p)
        case = {"engine": "real", "prog": prog}
        v = real_oracle(prog, res["out"])
        if v and v[0][0] == "driver_incomplete":
            raise HarnessError(f"C10 real driver incomplete rc={res['rc']}: {res['err'][-800:]} prog={prog}")
        if not fails:
            acc.case(case, True)
            acc.count("real_resize_cases")
            acc.count("real_point:" + point)
            acc.count("real_new_worker_dies" if prog["new_worker_dies"] else "real_no_death")
        if v:
            fails.append({"kind": v[0][0], "detail": v[0][1], "case": case, "where": "real"})
            raise AssertionError(v[0][0])

    try:
        t()
    except BaseException:
        if not fails:
            raise
    finally:
        import shutil
        shutil.rmtree(base, ignore_errors=True)
    if fails:
        acc.violations.append(fails[-1])
    return acc


def run(tier, seed):
    from vlib import common
    from vlib.shards import run_jobs
    acc = _sim_run(tier, seed)
    nr = 48 if tier == "quick" else 640
    a2, _ = run_jobs([{"module": "props.c10", "func": "real_shard",
                       "kwargs": {"seed": common.derive_seed(seed, ID, "real", i), "n": nr // 16, "tier": tier}} for i in range(16)],
                     tag="c10real", timeout_s=1500 if tier == "quick" else 7200)
    acc.merge(a2, sample_cap=10)
    return acc


def replay(case, verbose=False):
    if case.get("engine") == "real":
        import json
        import shutil
        from real import runner
        base = runner.workdir("c10replay")
        prog = case["prog"]
        res, p = runner.run_driver("drv_c10.py", prog, base, timeout=200,
                                   env_extra={"LOKY_VERIF_PLAN": json.dumps(prog["plan"]), "LOKY_VERIF_DIR": "."}, hooks=True)
        res = runner.finish(res, p)
        if verbose:
            print(res["out"], res["err"][-400:])
        v = real_oracle(prog, res["out"])
        shutil.rmtree(base, ignore_errors=True)
        return [{"kind": k, "detail": d, "case": case, "predicates": []} for k, d in v]
    return _sim_replay(case, verbose)
