"""C10 - resizing preserves submitted work and surviving workers, and terminates (SIM engine, deciding)."""
from sim import oracles, strategies
from props._simprop import install

ID = "C10"
RULE = (
    "Reusable executor; one thread runs get(old) -> submit 0-6 tasks (echo/gate/big/raise) -> get(new) repeated 1-3 "
    "times with (old, new) in [1..4]^2, worker timeout in {None, 10, 0.5, 1e-3, 0}, optionally a second thread "
    "submitting meanwhile, 0-1 abrupt worker deaths; idle timers and the death are placed by the generated schedule at "
    "every step of _resize (waiting for jobs, posting sentinels, waiting for departures, spawning, waiting for "
    "arrivals). Oracle: every get returns (else hang/livelock); without deaths every task submitted before completes "
    "with its own outcome; when no worker timed out or died during the call it returns with exactly `new` live workers "
    "of which min(live before, new) are previous pids. Non-trivial = a resize with old != new on a started executor."
)


def profile(tier):
    return strategies.profile(shape="resize", max_faults=1, fault_weights=[12, 5], timeouts=[None, None, 10, 0.5, 1e-3, 0],
                              initializers=["none", "none", "ok"], max_workers=4)


def nontrivial(H):
    return any(g["same"] and g["prev_started"] and g["prev_max_workers"] != g["requested"] for g in H.get_log)


def classify(acc, H):
    for g in H.get_log:
        if g["same"] and g["prev_max_workers"] is not None and g["prev_started"]:
            d = g["requested"] - g["prev_max_workers"]
            acc.count("resize:" + ("grow" if d > 0 else "shrink" if d < 0 else "same"))
            acc.count("resize_window_disturbed" if oracles._window_disturbed(H, g["start"], g["end"]) else "resize_window_quiet")


def oracle(H):
    return oracles.c10(H)


SWEEP = (6, 80)
install(globals(), ID, 3500, 40000)
