"""C07 - idle-timeout exits are invisible: never 'broken', never a lost task (SIM engine, deciding)."""
from sim import oracles, strategies
from props._simprop import install

ID = "C07"
RULE = (
    "Fault-free cases with worker timeout in {0, 1e-3, 0.5, 10} (and memory-leak exits from generated memory "
    "readings): bursts of tasks separated by sleeps from 1-3 threads, reusable resizes, shutdowns; every timer firing "
    "is a scheduler action, so expiries land after the item entered the pipe, while the management lock is held, "
    "during respawn/_resize/shutdown, on all workers at once. Oracle: no broken-pool error on any future/submit, every "
    "task executed exactly once with its own outcome, every worker exit code 0, all futures done, no hang. "
    "Non-trivial = a worker's idle timer fired, or a worker left (idle / memory-leak exit, before any shutdown was "
    "requested), while >= 1 future was unresolved."
)


def profile(tier):
    return strategies.profile(
        max_faults=0, mem=True,
        timeouts=[0, 0, 1e-3, 1e-3, 0.5, 10],
        kinds={"echo": 10, "gate": 2, "big": 2, "bigarg": 1, "raise": 2, "unp_res": 1, "unp_arg": 1},
        ops={"submit": 10, "result": 2, "cancel": 1, "map": 1, "sleep": 4, "get": 1, "wait_all": 2, "callback": 0},
        endings=["wait_all", "wait_all", "wait_shutdown", "shutdown_wait", "none", "shutdown_nowait", "del", "exit"],
        get_args={"reuse": ["auto", True]},
        initializers=["none", "ok"],
        schedule_kinds=["te", "te", "te", "pb", "rw", "default"],
    )


def nontrivial(H):
    sd = [o["start"] for o in H.ops if o["op"][0] in ("shutdown", "del", "exit")]
    t_sd = min(sd) if sd else 10 ** 9
    for st_, k, d in H.events:
        if d.get("pid") == 1000 or not (d.get("pending") or 0) > 0:
            continue
        if k == "fire" or (k == "exit" and st_ < t_sd):
            return True
    return False


def classify(acc, H):
    acc.count("idle_fires_with_pending", sum(1 for _, k, d in H.events if k == "fire" and d.get("pid") != 1000 and (d.get("pending") or 0) > 0))
    acc.count("worker_processes_spawned", len(H.procs))
    acc.count("cases_with_respawn", 1 if len(H.procs) > H.case["config"]["max_workers"] else 0)


def oracle(H):
    v = oracles.c07(H)
    if H.verdict == "quiescent":
        v += oracles.spurious_respawn(H)
    # every worker that ran a task was initialised (C18 shares this observation)
    if H.case["config"].get("initializer") == "ok":
        bad = [e for e in H.exec_log if e["marker"] != "M"]
        if bad:
            v.append({"kind": "uninitialised_worker_ran_task", "detail": f"{bad[:3]}", "where": "marker"})
    return v


SWEEP = (4, 150)
install(globals(), ID, 4000, 50000)
