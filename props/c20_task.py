"""Task bodies for the C20 REAL check."""
import os
import time


def ident(x):
    return x


def nap(t):
    time.sleep(t)
    return os.getpid()


def die(code):
    os._exit(code)


def nested(n):
    from loky.process_executor import ProcessPoolExecutor
    with ProcessPoolExecutor(max_workers=1) as ex:
        return sum(ex.map(ident, range(n)))


class Unpicklable:
    def __reduce__(self):
        raise ZeroDivisionError("cannot be pickled")


def tree_nap(n, t):
    """A task whose worker has n helper subprocesses (reaped promptly by the worker when they end) while it runs."""
    import subprocess
    import threading
    ps = [subprocess.Popen(["sleep", "60"], stdin=subprocess.DEVNULL) for _ in range(n)]
    for p in ps:
        threading.Thread(target=p.wait, daemon=True).start()
    time.sleep(t)
    for p in ps:
        p.kill()
    return os.getpid()
