"""Task bodies for the C20 REAL check."""
import os
import time


def ident(x):
    return x


def nap(t):
    time.sleep(t)
    return os.getpid()


def die(code):
    os._exit(code)


def nested(n):
    from loky.process_executor import ProcessPoolExecutor
    with ProcessPoolExecutor(max_workers=1) as ex:
        return sum(ex.map(ident, range(n)))


class Unpicklable:
    def __reduce__(self):
        raise ZeroDivisionError("cannot be pickled")
