"""C14 - synchronisation primitives keep their contracts under every interleaving (SIM engine on loky's synchronize)."""
from hypothesis import strategies as st

from sim import strategies, syncprog
from sim.syncprog import LATE
from props._simprop import install

ID = "C14"
RULE = (
    "Case = (primitive in {Lock, RLock, Semaphore(n), BoundedSemaphore(n), Condition, Event} created through "
    "LokyContext, 2-5 actors spread over the creating process and 0-2 simulated child processes (copies made by "
    "loky's real __getstate__/__setstate__), each with a generated op list, schedule in {preemption-bounded, random "
    "walk, PCT, timer-eager}); timed waits fire wherever the scheduler chooses, including between the notifier's "
    "individual semaphore operations. Oracles: critical-section occupancy <= 1 (<= n); sequential reference model for "
    "single-actor misuse sequences (over-release ValueError, foreign RLock release AssertionError, re-entry); "
    "Condition: wait returns holding the lock, False only if its timer fired, no internal assertion, woken count <= "
    "notify capacity, a notify issued while a never-expiring waiter sleeps wakes someone, nobody asleep at a "
    "notify_all stays blocked, a fresh wait/notify handshake works after the burst; Event: wait True => a set() "
    "began before, set() completed before an untimed wait (no clear) => True, after a final set() everybody returns "
    "True. Non-trivial = >= 2 actors contended (an acquire blocked or failed, or a wait overlapped a notify/set), or a "
    "timer fired during a wait."
)

TIMEOUTS = [None, None, 0.0, 1e-3, 0.5, 3.0]


@st.composite
def _lock_actor(draw, kind, n):
    ops = []
    for _ in range(draw(st.integers(1, 4))):
        form = draw(st.sampled_from(["acq", "acq", "with", "try", "timed"]))
        if form == "with":
            ops.append(["with"])
            continue
        if form == "acq":
            ops.append(["acq", True, None])
        elif form == "try":
            ops.append(["acq", False, None])
        else:
            ops.append(["acq", True, draw(st.sampled_from([1e-3, 0.5, 3.0]))])
        if kind == "rlock" and draw(st.booleans()):
            ops.append(["acq", draw(st.booleans()), None])
            ops.append(["rel"])
        if draw(st.integers(0, 3)) == 0:
            ops.append(["sleep", draw(st.sampled_from([1e-3, 0.3]))])
        ops.append(["rel"])          # (a no-op release when the acquire failed is replaced below)
    return ops


def _balance(ops, kind):
    """Make releases conditional at generation time impossible -> the runner releases only what it holds, except for
    RLock where an un-held release is kept on purpose (must raise AssertionError)."""
    return ops


@st.composite
def _seq_misuse(draw, kind):
    ops = []
    for _ in range(draw(st.integers(2, 10))):
        ops.append(draw(st.sampled_from([["acq", False, None], ["acq", True, 1e-3], ["rel"], ["rel"], ["with"]])))
    return ops


@st.composite
def _cond_actors(draw):
    actors = []
    if draw(st.booleans()):
        # contended template: never-expiring and expiring waiters asleep together while notify() runs
        to = draw(st.sampled_from([0.5, 3.0]))
        same_proc = draw(st.booleans())
        for _ in range(draw(st.integers(0, 2))):
            actors.append({"proc": 0 if same_proc else draw(st.integers(0, 2)), "ops": [["wait", None]]})
        for _ in range(draw(st.integers(1, 3))):
            ops = [["wait", to]]
            if draw(st.integers(0, 2)) == 0:
                ops.append(["wait", draw(st.sampled_from([0.5, 3.0]))])      # a later, un-notified timed wait
            actors.append({"proc": 0 if same_proc else draw(st.integers(0, 2)), "ops": ops})
        nops = [["sleep", draw(st.sampled_from([0.3, 0.3, 2.0, 10.0]))]]
        for _ in range(draw(st.integers(1, 2))):
            nops.append([draw(st.sampled_from(["notify", "notify", "notify", "notify_all"]))])
        actors.append({"proc": 0 if same_proc else draw(st.integers(0, 2)), "ops": nops})
        actors.append({"proc": 0, "ops": [["sleep", LATE], ["observe"], ["notify_all"], ["sleep", 2000.0], ["notify_all"]]})
        actors.append({"proc": 0, "ops": [["sleep", LATE + 1000.0], ["wait", None]]})
        return actors
    nw = draw(st.integers(1, 3))
    nn = draw(st.integers(1, 2))
    for _ in range(nw):
        ops = []
        for _ in range(draw(st.integers(1, 2))):
            if draw(st.integers(0, 3)) == 0:
                ops.append(["sleep", draw(st.sampled_from([1e-3, 0.3, 2.0]))])
            ops.append(["wait", draw(st.sampled_from([None, None, 1e-3, 0.5, 3.0, 30.0])), draw(st.sampled_from([1, 1, 1, 2]))])
        actors.append({"proc": draw(st.integers(0, 2)), "ops": ops})
    for _ in range(nn):
        ops = []
        for _ in range(draw(st.integers(1, 3))):
            if draw(st.booleans()):
                ops.append(["sleep", draw(st.sampled_from([1e-3, 0.3, 2.0, 10.0]))])
            ops.append([draw(st.sampled_from(["notify", "notify", "notify_all"]))])
        actors.append({"proc": draw(st.integers(0, 2)), "ops": ops})
    # settled observation, flush, fresh handshake
    actors.append({"proc": 0, "ops": [["sleep", LATE], ["observe"], ["notify_all"], ["sleep", 2000.0], ["notify_all"]]})
    actors.append({"proc": draw(st.integers(0, 1)), "ops": [["sleep", LATE + 1000.0], ["wait", None]]})
    return actors


@st.composite
def _event_actors(draw):
    actors = []
    for _ in range(draw(st.integers(1, 3))):
        ops = []
        for _ in range(draw(st.integers(1, 2))):
            if draw(st.integers(0, 2)) == 0:
                ops.append(["sleep", draw(st.sampled_from([1e-3, 0.3, 2.0]))])
            ops.append(["ewait", draw(st.sampled_from([None, None, 1e-3, 0.5, 3.0]))])
            if draw(st.integers(0, 3)) == 0:
                ops.append(["is_set"])
        actors.append({"proc": draw(st.integers(0, 2)), "ops": ops})
    clears = draw(st.booleans())
    for _ in range(draw(st.integers(0, 2))):
        # a poller: is_set() takes and puts back the flag token; nobody may observe the event as clear meanwhile
        actors.append({"proc": draw(st.integers(0, 2)), "ops": [["sleep", draw(st.sampled_from([1e-3, 0.3]))]] + [["is_set"]] * draw(st.integers(1, 4))})
    for _ in range(draw(st.integers(1, 2))):
        ops = []
        for _ in range(draw(st.integers(1, 3))):
            if draw(st.booleans()):
                ops.append(["sleep", draw(st.sampled_from([1e-3, 0.3, 2.0, 10.0]))])
            ops.append([draw(st.sampled_from(["set", "set", "clear"] if clears else ["set"]))])
        actors.append({"proc": draw(st.integers(0, 2)), "ops": ops})
    actors.append({"proc": 0, "ops": [["sleep", LATE], ["observe"], ["set"], ["sleep", 10.0], ["is_set"]]})
    return actors


@st.composite
def case_strategy(draw, P):
    prim = draw(st.sampled_from(["lock", "rlock", "sem", "bsem", "cond", "cond", "cond", "event", "event"]))
    n = draw(st.integers(1, 3)) if prim in ("sem", "bsem") else 1
    if prim == "cond":
        actors = draw(_cond_actors())
    elif prim == "event":
        actors = draw(_event_actors())
    elif draw(st.integers(0, 4)) == 0:
        actors = [{"proc": draw(st.integers(0, 1)), "ops": draw(_seq_misuse(prim))}]
    else:
        actors = [{"proc": draw(st.integers(0, 2)), "ops": draw(_lock_actor(prim, n))}
                  for _ in range(draw(st.integers(2, 5)))]
    if prim in ("cond", "event"):
        P = dict(P, schedule_kinds=["rw", "rw", "rw", "rw", "rw", "te", "pb", "pct"])
    return {"prim": prim, "n": n, "actors": actors, "schedule": draw(strategies.schedules(P))}


def profile(tier):
    return strategies.profile(schedule_kinds=["rw", "rw", "rw", "te", "te", "pb", "pct", "default"], pb_horizon=400,
                              pct_horizon=300, rw_len=220, rw_min=40, te_max=12, rw_cycle=1500)


run_case = syncprog.run_case


def case_summary(case):
    return {"prim": case["prim"], "n": case["n"], "actors": case["actors"],
            "schedule": {k: (v[:10] if isinstance(v, list) else v) for k, v in case["schedule"].items()}}


def generic_hist(acc, case, H):
    acc.count("prim:" + case["prim"])
    acc.count(f"actors:{len(case['actors'])}")
    acc.count(f"processes:{H.nprocs}")
    sk = case["schedule"]
    acc.count("policy:" + (sk["kind"] if sk["kind"] == "pct" else "default" if not sk.get("preempt") and not sk.get("choices") else sk["kind"]))
    acc.count("verdict:" + str(H.verdict))
    acc.count("timers_fired", H.timers_fired)
    for k, n in H.excluded.items():
        acc.count("excluded_known:" + k, n)
    for o in H.ops:
        acc.count("op:" + o["op"][0])
        if o["op"][0] == "wait" and o["out"]:
            acc.count("wait_result:" + str(o["out"][1]))
        if o["op"][0] in ("notify", "notify_all"):
            acc.count(f"{o['op'][0]}_with_sleepers:{min(len(o.get('asleep_at_start') or []), 3)}")


def nontrivial(H):
    if len(H.case["actors"]) < 2:
        return len(H.ops) >= 4
    for o in H.ops:
        if o.get("fires"):
            return True
        if o["op"][0] == "acq" and o["out"] == ["ret", False]:
            return True
        if o["op"][0] in ("notify", "notify_all") and o.get("asleep_at_start") and o["start"] < 10 ** 9 and \
                not any(x[0] == "sleep" and x[1] >= LATE for x in H.case["actors"][o["actor"]]["ops"]):
            return True
    return H.max_occ >= 1 and H.case["prim"] in ("lock", "rlock", "sem", "bsem") and len(H.case["actors"]) >= 3


# ----------------------------------------------------------------------------- oracles
def _seq_model(case, H):
    """Single-actor misuse sequences against a sequential reference model."""
    v = []
    kind, n = case["prim"], case["n"]
    maxv = {"lock": 1, "rlock": 1, "sem": None, "bsem": n}[kind]
    val = 1 if kind in ("lock", "rlock") else n
    depth = 0       # rlock recursion depth of the (only) actor
    for o in H.ops:
        name = o["op"][0]
        out = o["out"]
        if name == "acq":
            if kind == "rlock":
                exp = True
                depth += 1
                if depth == 1:
                    val -= 1
            else:
                exp = val > 0
                if exp:
                    val -= 1
            if out != ["ret", exp]:
                v.append({"kind": "sequential_spec", "detail": f"{kind}: op {o['k']} acquire{o['op'][1:]} gave {out}, model says {exp}", "where": kind})
                break
        elif name == "rel":
            if kind == "rlock":
                if depth == 0:
                    ok = out and out[0] == "raise" and out[1] == "AssertionError"
                    exp = "AssertionError"
                else:
                    depth -= 1
                    if depth == 0:
                        val += 1
                    ok = out == ["ret", None]
                    exp = "return"
            elif maxv is not None and val >= maxv:
                ok = out and out[0] == "raise" and out[1] == "ValueError"
                exp = "ValueError"
            else:
                val += 1
                ok = out == ["ret", None]
                exp = "return"
            if not ok:
                v.append({"kind": "sequential_spec", "detail": f"{kind}(n={n}): op {o['k']} release gave {out}, model says {exp}", "where": kind})
                break
        elif name == "with":
            exp_ok = kind == "rlock" or val > 0
            if exp_ok and out != ["ret", None]:
                v.append({"kind": "sequential_spec", "detail": f"{kind}: with-block gave {out}", "where": kind})
                break
            if not exp_ok:
                break   # would block forever: generator avoids it only statistically; stop checking here
    return v


def _cond(case, H):
    v = []
    waits = [o for o in H.ops if o["op"][0] == "wait"]
    nots = [o for o in H.ops if o["op"][0] in ("notify", "notify_all")]
    for o in H.ops:
        if o["out"] and o["out"][0] == "raise":
            v.append({"kind": "internal_assertion" if o["out"][1] == "AssertionError" else "unexpected_exception",
                      "detail": f"actor{o['actor']} {o['op']} raised {o['out'][1:]}", "where": o["op"][0] + ":" + o["out"][1]})
    for o in waits:
        if o["out"] == ["ret", False] and not o.get("fires"):
            v.append({"kind": "wait_false_without_timeout", "detail": f"actor{o['actor']} wait({o['op'][1]}) returned False but its timer never fired", "where": "wait"})
        if o["out"] and o["out"][0] == "ret" and o.get("count_after") not in (None, 2):
            v.append({"kind": "wait_returned_with_wrong_recursion_depth", "detail": f"actor{o['actor']} wait() inside two nested "
                      f"`with cond` returned with recursion count {o.get('count_after')}", "where": "wait"})
        if o["out"] and o["out"][0] == "ret" and o.get("mine_after") is False:
            v.append({"kind": "wait_returned_without_lock", "detail": f"actor{o['actor']} wait returned without holding the lock", "where": "wait"})
    notified = {tuple(k) for o in nots for k, _ in (o.get("asleep_at_start") or [])}
    for o in waits:
        if o["out"] == ["ret", True] and (o["actor"], o["k"]) not in notified:
            v.append({"kind": "wait_true_without_notify", "detail": f"actor{o['actor']} wait({o['op'][1]}) [{o['start']}..{o['end']}] returned "
                      f"True but no notify/notify_all began while it was asleep", "where": "wait"})
    if H.max_occ > 1:
        v.append({"kind": "condition_lock_not_exclusive", "detail": f"{H.max_occ} actors inside `with cond` at once", "where": "occ"})
    obs = [o for o in H.ops if o["op"][0] == "observe"]
    if not obs or obs[0]["out"] is None:
        return v
    still = {tuple(k) for k, _ in obs[0].get("asleep_now") or []}
    t_obs = obs[0]["start"]
    early_n = [o for o in nots if o["start"] < t_obs and o["out"] is not None]
    # nobody asleep when a notify_all began may still sleep once everything has settled
    for o in early_n:
        if o["op"][0] != "notify_all":
            continue
        lost = [k for k, _ in o["asleep_at_start"] if tuple(k) in still]
        if lost:
            v.append({"kind": "notify_all_lost_waiter", "detail": f"waiters {lost} were asleep when actor{o['actor']}'s notify_all "
                      f"began (step {o['start']}) and are still blocked after everything settled", "where": "notify_all"})
    # counting: woken <= capacity; notifies that had a never-woken sleeper available must each have woken someone
    early_w = [o for o in waits if o["start"] < t_obs]
    woken = sum(1 for o in early_w if o["out"] == ["ret", True] and o["end"] is not None and o["end"] <= t_obs)
    cap = sum(min(1, len(o["asleep_at_start"])) if o["op"][0] == "notify" else len(o["asleep_at_start"]) for o in early_n)
    if woken > cap:
        v.append({"kind": "more_woken_than_notified", "detail": f"{woken} waits returned True, notify capacity {cap}", "where": "count"})
    demand = sum(1 for o in early_n if o["op"][0] == "notify" and any(tuple(k) in still for k, _ in o["asleep_at_start"]))
    if woken < demand:
        v.append({"kind": "notify_woke_nobody", "detail": f"{demand} notify() calls were issued while a waiter that is still asleep "
                  f"(its timeout never expires) was sleeping, but only {woken} waits were woken; still asleep: {sorted(still)}",
                  "where": "notify"})
    # after the flush and the fresh handshake, nothing may remain blocked and the fresh waiter must have been woken
    if H.verdict == "quiescent":
        unfinished = [o for o in waits if o["out"] is None]
        if unfinished and not v:
            v.append({"kind": "condition_unusable_after_burst", "detail": f"after notify_all + a fresh wait/notify handshake, waits "
                      f"{[(o['actor'], o['k']) for o in unfinished]} never returned; blocked: {H.blocked[:4]}", "where": "handshake"})
        hung = [o for o in H.ops if o["out"] is None and o["op"][0] in ("notify", "notify_all")]
        if hung and not v:
            v.append({"kind": "notify_hangs", "detail": f"{[(o['actor'], o['op']) for o in hung]}; blocked {H.blocked[:4]}", "where": "notify"})
    return v


def _event(case, H):
    v = []
    sets = [o for o in H.ops if o["op"][0] == "set"]
    clears = [o for o in H.ops if o["op"][0] == "clear"]
    waits = [o for o in H.ops if o["op"][0] == "ewait"]
    for o in H.ops:
        if o["out"] and o["out"][0] == "raise":
            v.append({"kind": "internal_assertion" if o["out"][1] == "AssertionError" else "unexpected_exception",
                      "detail": f"actor{o['actor']} {o['op']} raised {o['out'][1:]}", "where": o["op"][0] + ":" + o["out"][1]})
    for o in waits:
        if o["out"] is None:
            continue
        if o["out"] == ["ret", True] and not any(s["start"] <= o["end"] for s in sets):
            v.append({"kind": "event_wait_true_without_set", "detail": f"actor{o['actor']} wait returned True, no set() had begun", "where": "ewait"})
        if o["out"] == ["ret", False]:
            if not o.get("fires") and o["op"][1] not in (0, 0.0) and not clears:
                v.append({"kind": "event_wait_false_without_timeout", "detail": f"actor{o['actor']} wait({o['op'][1]}) returned False, its timer never fired", "where": "ewait"})
            if not clears and any(s["end"] is not None and s["end"] < o["start"] for s in sets):
                v.append({"kind": "event_wait_false_although_set", "detail": f"actor{o['actor']} wait returned False although a set() had completed before it began and nothing clears the event", "where": "ewait"})
    # sequential specification along the order in which operations last released the event's lock (every operation's
    # final read/write of the flag happens while it holds that lock)
    if H.event_lock:
        rel = [(st_, tid) for st_, name, tid in H.sem_release_log if name == H.event_lock]
        lin = []
        for o in H.ops:
            if o["op"][0] not in ("set", "clear", "is_set", "ewait") or o["out"] is None or o["out"][0] != "ret":
                continue
            mine = [st_ for st_, tid in rel if tid == o.get("tid") and o["start"] <= st_ <= o["end"]]
            if mine:
                lin.append((max(mine), o))
        lin.sort(key=lambda x: x[0])
        flag = False
        for st_, o in lin:
            name = o["op"][0]
            if name == "set":
                flag = True
            elif name == "clear":
                flag = False
            elif o["out"][1] != flag:
                v.append({"kind": "event_sequential_spec", "detail": f"actor{o['actor']} {o['op']} returned {o['out'][1]} but the "
                          f"event was {'set' if flag else 'clear'} at its final locked check (step {st_})", "where": name})
                break
        # settled observation: nobody may still be waiting on an event that is (and stays) set
        obs = [o for o in H.ops if o["op"][0] == "observe" and o["out"] is not None]
        if obs and not v:
            t_obs = obs[0]["start"]
            flag = False
            for st_, o in lin:
                if st_ >= t_obs:
                    break
                if o["op"][0] == "set":
                    flag = True
                elif o["op"][0] == "clear":
                    flag = False
            pending_mut = [o for o in H.ops if o["op"][0] in ("set", "clear") and o["start"] < t_obs and (o["end"] is None or o["end"] >= t_obs)]
            if flag and obs[0].get("ev_waiting") and not pending_mut:
                v.append({"kind": "event_wait_blocked_although_set", "detail": f"after everything settled the event is set but waits "
                          f"{obs[0]['ev_waiting']} are still blocked", "where": "observe"})
    if H.verdict == "quiescent":
        unfinished = [o for o in H.ops if o["out"] is None]
        if unfinished and not v:
            v.append({"kind": "event_lost_wakeup", "detail": f"after a final set() ops {[(o['actor'], o['op']) for o in unfinished]} never returned; blocked {H.blocked[:4]}", "where": "final_set"})
        last = [o for o in H.ops if o["op"][0] == "is_set" and any(x == ["sleep", 10.0] for x in case["actors"][o["actor"]]["ops"])]
        for o in last:
            if o["out"] == ["ret", False] and not any(c["end"] is None or c["end"] > o["start"] - 1 for c in clears if c["start"] > 0 and False):
                late_clear = any(c["start"] >= [x for x in H.ops if x["op"][0] == "observe"][0]["start"] for c in clears)
                if not late_clear:
                    v.append({"kind": "event_not_set_after_set", "detail": "is_set() False after the final set()", "where": "is_set"})
    return v


def oracle(H):
    case = H.case
    if H.verdict == "livelock":
        return [{"kind": "livelock", "detail": str(H.verdict_detail), "where": case["prim"]}]
    if H.verdict != "quiescent":
        return []
    kind = case["prim"]
    if kind == "cond":
        return _cond(case, H)
    if kind == "event":
        return _event(case, H)
    v = []
    if len(case["actors"]) == 1:
        return _seq_model(case, H)
    lim = case["n"] if kind in ("sem", "bsem") else 1
    if H.max_occ > lim:
        v.append({"kind": "mutual_exclusion_violated", "detail": f"{H.max_occ} holders at once, limit {lim} ({kind})", "where": kind})
    for o in H.ops:
        out = o["out"]
        if o["op"][0] == "rel" and o.get("held") is False:
            if kind == "rlock" and not (out and out[0] == "raise" and out[1] == "AssertionError"):
                v.append({"kind": "foreign_release_accepted", "detail": f"RLock.release() by a non-owner gave {out}", "where": "rlock"})
        elif out and out[0] == "raise":
            v.append({"kind": "unexpected_exception", "detail": f"actor{o['actor']} {o['op']} raised {out[1:]}", "where": o["op"][0] + ":" + out[1]})
    hung = [o for o in H.ops if o["out"] is None]
    if hung and not v:
        v.append({"kind": "lock_never_granted", "detail": f"{[(o['actor'], o['op']) for o in hung]} never returned although every "
                  f"holder releases; blocked {H.blocked[:4]}", "where": kind})
    return v


def predicates(H, v):
    preds = set()
    if H.case["prim"] in ("cond", "event"):
        # history predicate of F-b: a timed wait's timer fired while a notify was in progress and another waiter slept
        nots = [o for o in H.ops if o["op"][0] in ("notify", "notify_all", "set")]
        for w_ in H.ops:
            if w_["op"][0] in ("wait", "ewait") and w_.get("fires") and w_["op"][1] is not None:
                preds.add("timed_wait_expired")
        if "timed_wait_expired" in preds and any(
                len(o.get("asleep_at_start") or []) >= 2 and any(x[1] is None for x in o["asleep_at_start"])
                and any(x[1] is not None for x in o["asleep_at_start"]) for o in nots if o["op"][0] in ("notify", "notify_all")):
            preds.add("timeout_fired_with_notify_and_two_sleepers")
    return sorted(preds)


def adjust(case):
    return case


def hooks(w, ctx=None):
    return None


def sweep_profile(tier):
    return profile(tier)


def _corpus():
    late = [{"proc": 0, "ops": [["sleep", LATE], ["observe"], ["notify_all"], ["sleep", 2000.0], ["notify_all"]]},
            {"proc": 0, "ops": [["sleep", LATE + 1000.0], ["wait", None]]}]
    out = []
    for n_timed, n_untimed, nkind in ((3, 0, "notify_all"), (2, 1, "notify_all"), (2, 1, "notify"), (1, 1, "notify"), (2, 0, "notify")):
        actors = [{"proc": 0, "ops": [["wait", 0.5], ["wait", 3.0]]}] + [{"proc": 0, "ops": [["wait", 0.5]]} for _ in range(n_timed - 1)]
        actors += [{"proc": 0, "ops": [["wait", None]]} for _ in range(n_untimed)]
        actors.append({"proc": 0, "ops": [["sleep", 0.3], [nkind]]})
        out.append({"prim": "cond", "n": 1, "actors": actors + late, "schedule": {"kind": "pb", "preempt": []}})
    # the notifier races with the waiters' *entry* into wait() (no delay): a notify issued once a waiter has given up the lock
    # must count it as a sleeper
    for n_untimed, nkind in ((1, "notify"), (2, "notify_all"), (2, "notify")):
        actors = [{"proc": 0, "ops": [["wait", None]]} for _ in range(n_untimed)]
        actors.append({"proc": 0, "ops": [[nkind]]})
        out.append({"prim": "cond", "n": 1, "actors": actors + late, "schedule": {"kind": "pb", "preempt": []}})
    ev = [{"proc": 0, "ops": [["ewait", None]]}, {"proc": 1, "ops": [["ewait", 0.5], ["is_set"]]},
          {"proc": 0, "ops": [["sleep", 0.3], ["set"], ["clear"]]},
          {"proc": 0, "ops": [["sleep", LATE], ["observe"], ["set"], ["sleep", 10.0], ["is_set"]]}]
    out.append({"prim": "event", "n": 1, "actors": ev, "schedule": {"kind": "pb", "preempt": []}})
    ev2 = [{"proc": 0, "ops": [["set"]]}, {"proc": 0, "ops": [["sleep", 0.3], ["is_set"], ["is_set"]]},
           {"proc": 0, "ops": [["sleep", 0.3], ["ewait", None]]}, {"proc": 1, "ops": [["sleep", 0.3], ["ewait", 0.5], ["is_set"]]},
           {"proc": 0, "ops": [["sleep", LATE], ["observe"], ["set"], ["sleep", 10.0], ["is_set"]]}]
    out.append({"prim": "event", "n": 1, "actors": ev2, "schedule": {"kind": "pb", "preempt": []}})
    return out


SWEEP_CORPUS = _corpus()
SWEEP = (16, 300)
install(globals(), ID, 6000, 80000)
