"""Importable objects used by the C15 check (must be importable in workers and by plain pickle)."""
import functools
import operator


class A:
    scale = 3

    def __init__(self, v):
        self.v = v

    def f(self, x, y=1):
        return ("A.f", self.v, x, y)

    @classmethod
    def h(cls, x, y=2):
        return ("A.h", cls.__name__, cls.scale, x, y)

    def __eq__(self, other):
        return type(other) is type(self) and other.v == self.v

    def __hash__(self):
        return hash(self.v)


class B(A):
    scale = 7


def plain(x, y=0, *rest, **kw):
    return ("plain", x, y, rest, tuple(sorted(kw.items())))


class Marker:
    """Class whose pickling is customised through reducers."""

    def __init__(self, v):
        self.v = v

    def __eq__(self, other):
        return isinstance(other, Marker) and other.v == self.v


def _mk_tag(tag, v):
    return ("reduced", tag, v)


def reducer_r1(m):
    return _mk_tag, ("r1", m.v)


def reducer_r2(m):
    return _mk_tag, ("r2", m.v)


def reducer_r3(m):
    return _mk_tag, ("r3", m.v)


REDUCERS = {"r1": reducer_r1, "r2": reducer_r2, "r3": reducer_r3}


def describe(x):
    if isinstance(x, Marker):
        return ["marker", x.v]
    if isinstance(x, tuple) and x and x[0] == "reduced":
        return list(x)
    return ["other", repr(x)[:60]]


def probe(arg, v):
    """Task: report how the argument arrived, and return a Marker (how it arrives is seen by the parent)."""
    from loky.backend.reduction import get_loky_pickler_name
    return {"arg": describe(arg), "pickler": get_loky_pickler_name(), "ret": Marker(v)}


def slow_probe(arg, v, delay):
    import time
    time.sleep(delay)
    return probe(arg, v)
