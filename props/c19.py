"""C19 - nested parallelism depth is bounded exactly at LOKY_MAX_DEPTH (PURE grid + SIM + REAL)."""
import itertools
import os

from vlib import common
from vlib.common import Acc, HarnessError

ID = "C19"
RULE = (
    "PURE (exhaustive): _check_max_depth and the ProcessPoolExecutor constructor over MAX_DEPTH in [-2..6] x current "
    "depth in [0..7] x start method in {loky, loky_init_main, spawn, forkserver, fork} against the statement (success "
    "iff (MAX_DEPTH <= 0 or depth < MAX_DEPTH) and not (fork and depth >= 1); refusal is LokyRecursionError and creates "
    "no queue/pipe). SIM: loky's real executor on the simulated kernel with the parent's depth set to d0 in 0..3, worker "
    "idle timeouts down to 0, respawns, memory-leak exits and reusable-executor resizes under generated schedules: every "
    "task execution must log depth d0+1. REAL: a driver started with LOKY_MAX_DEPTH=m (m in {1,2,3,0,-1}) recurses "
    "through plain/reusable executors (reuse of a worker by two successive tasks, resize, idle time-out between tasks); "
    "each level reports the depth it sees and the outcome of creating an executor. Oracle: level d sees depth d; creation "
    "succeeds iff m <= 0 or d < m, else LokyRecursionError and no new child process. Non-trivial = a refusal was "
    "observed at the exact limit (REAL/PURE) or a respawn/resize happened (SIM)."
)
ASSUMPTIONS = ["PURE part substitutes MAX_DEPTH/_CURRENT_DEPTH in loky.process_executor and passes a context stub",
               "REAL part: recursion up to 4 levels (unlimited settings are only probed to depth 3)"]


class _Ctx:
    def __init__(self, method):
        self.m = method

    def get_start_method(self):
        return self.m


def pure_grid():
    common.add_repo_to_path()
    import loky.process_executor as pe
    from loky.backend.context import get_context
    acc = Acc()
    saved = (pe.MAX_DEPTH, pe._CURRENT_DEPTH)
    try:
        for m, d, meth in itertools.product(range(-2, 7), range(0, 8), ["loky", "loky_init_main", "spawn", "forkserver", "fork"]):
            pe.MAX_DEPTH, pe._CURRENT_DEPTH = m, d
            expect_ok = (m <= 0 or d < m) and not (meth == "fork" and d >= 1)
            case = {"engine": "pure", "MAX_DEPTH": m, "depth": d, "method": meth}
            acc.case(case, m >= 1 and d in (m - 1, m))
            try:
                pe._check_max_depth(_Ctx(meth))
                got = "ok"
            except pe.LokyRecursionError:
                got = "LokyRecursionError"
            except BaseException as e:
                got = f"other:{type(e).__name__}"
            if (got == "ok") != expect_ok or (not expect_ok and got != "LokyRecursionError"):
                acc.violations.append({"kind": "depth_check_differs", "detail": f"MAX_DEPTH={m} depth={d} method={meth}: {got}, "
                                       f"statement says {'ok' if expect_ok else 'LokyRecursionError'}", "case": case, "where": "pure"})
                continue
            # the constructor must apply the same check before creating anything
            if meth in ("loky", "spawn"):
                fds0 = len(os.listdir("/proc/self/fd"))
                try:
                    ex = pe.ProcessPoolExecutor(max_workers=1, context=get_context(meth))
                    got2 = "ok"
                    ex.shutdown(wait=True)
                    del ex
                except pe.LokyRecursionError:
                    got2 = "LokyRecursionError"
                    import gc
                    gc.collect()
                    if len(os.listdir("/proc/self/fd")) > fds0:
                        acc.violations.append({"kind": "refused_constructor_left_descriptors", "detail": f"{case}", "case": case, "where": "pure"})
                if got2 != got:
                    acc.violations.append({"kind": "constructor_depth_check_differs", "detail": f"{case}: constructor {got2}, check {got}", "case": case, "where": "pure"})
    finally:
        pe.MAX_DEPTH, pe._CURRENT_DEPTH = saved
    acc.count("pure_grid_points", acc.evaluations)
    return acc


# ----------------------------------------------------------------------------- SIM part
def sim_profile(tier):
    from sim import strategies
    return strategies.profile(
        max_faults=0, mem=True, timeouts=[None, 10, 0.5, 1e-3, 0],
        kinds={"echo": 10, "gate": 1, "big": 1, "raise": 1},
        ops={"submit": 10, "result": 2, "cancel": 0, "map": 0, "sleep": 4, "get": 2, "wait_all": 2, "callback": 0},
        endings=["wait_all", "wait_all", "wait_shutdown"], get_args={"reuse": ["auto", True]}, initializers=["none"],
        schedule_kinds=["te", "pb", "pct", "default"])


profile = sim_profile


def adjust(case):
    from vlib import findings_sim
    case, n = findings_sim.adjust_case(case)
    if n:
        case["_excluded_program"] = n
    import hashlib, json
    h = int(hashlib.sha256(json.dumps(case["program"], sort_keys=True).encode()).hexdigest(), 16)
    case["config"]["parent_depth"] = h % 4
    return case


def hooks(w, ctx):
    import loky.process_executor as pe
    from vlib import findings_sim
    findings_sim.install_exclusions(w, ctx, ID)
    pe._CURRENT_DEPTH = ctx.cfg.get("parent_depth", 0)


def oracle(H):
    from sim import oracles
    v = [x for x in oracles.liveness(H) if x["kind"] == "livelock"]
    d0 = H.case["config"].get("parent_depth", 0)
    bad = [e for e in H.exec_log if e["depth"] != d0 + 1]
    if bad:
        v.append({"kind": "worker_depth_wrong", "detail": f"parent depth {d0}: executions logged depth {sorted({e['depth'] for e in bad})} "
                  f"(e.g. {bad[0]})", "where": "depth"})
    return v


def nontrivial(H):
    return len(H.procs) > H.case["config"]["max_workers"] or any(g["same"] and g["prev_max_workers"] != g["requested"] for g in H.get_log)


def predicates(H, v):
    from vlib import findings_sim
    return findings_sim.predicates(H, v)


# ----------------------------------------------------------------------------- REAL part
def _walk(rec, m, out):
    d = rec["level"]
    if rec["depth_seen"] != d:
        out.append(("depth_seen_differs", f"process at nesting level {d} sees _CURRENT_DEPTH={rec['depth_seen']}"))
    if rec.get("stop"):
        return
    expect_ok = m <= 0 or d < m
    if expect_ok and rec.get("create") != "ok":
        out.append(("creation_refused_below_limit", f"level {d} with LOKY_MAX_DEPTH={m}: {rec.get('create')}"))
    if not expect_ok:
        if rec.get("create") != "LokyRecursionError":
            out.append(("creation_allowed_at_limit", f"level {d} with LOKY_MAX_DEPTH={m}: {rec.get('create')}"))
        elif rec.get("new_children_after_refusal"):
            out.append(("processes_spawned_despite_refusal", f"level {d}: {rec['new_children_after_refusal']}"))
    if rec.get("sub_error"):
        out.append(("nested_task_failed", f"level {d}: {rec['sub_error']}"))
    for s in rec.get("sub", []):
        _walk(s, m, out)


def real_shard(seed, n):
    import hypothesis
    from hypothesis import given, settings, HealthCheck, strategies as st
    from real import runner

    acc = Acc()
    fails = []
    base = runner.workdir("c19real")

    @hypothesis.seed(seed)
    @settings(max_examples=n, database=None, deadline=None, suppress_health_check=list(HealthCheck), report_multiple_bugs=False)
    @given(st.sampled_from([1, 2, 3, 3, 0, -1]), st.lists(st.sampled_from(["plain", "reusable"]), min_size=1, max_size=3),
           st.integers(1, 2), st.integers(1, 2), st.sampled_from([None, 20, 0.3]), st.booleans(), st.booleans())
    def t(m, kinds, workers, tasks, timeout, resize, idle):
        levels = (m + 1) if m >= 1 else 3
        prog = {"levels": levels, "kinds": kinds, "workers": workers, "tasks": tasks if levels <= 3 else 1, "timeout": timeout,
                "resize": resize, "idle": idle and timeout == 0.3}
        res = runner.run("drv_c19.py", prog, base, timeout=300, env_extra={"LOKY_MAX_DEPTH": m})
        if res["timed_out"]:
            raise HarnessError(f"C19 real driver watchdog (prog {prog}, m={m}): {res['err'][-600:]}")
        case = {"engine": "real", "LOKY_MAX_DEPTH": m, "prog": prog}
        tree = [o["tree"] for o in res["out"] if "tree" in o]
        if not tree:
            raise HarnessError(f"C19 real driver produced no tree rc={res['rc']}: {res['err'][-800:]}")
        out = []
        _walk(tree[0], m, out)
        if not fails:
            acc.case(case, m >= 1)
            acc.count(f"real_max_depth:{m}")
        if out:
            fails.append({"kind": out[0][0], "detail": out[0][1], "case": case, "where": "real"})
            raise AssertionError(out[0][0])

    try:
        t()
    except BaseException:
        if not fails:
            raise
    finally:
        import shutil
        shutil.rmtree(base, ignore_errors=True)
    if fails:
        acc.violations.append(fails[-1])
    return acc


def run(tier, seed):
    from vlib.shards import run_jobs
    from sim.run import run_sim
    acc = run_sim(ID, tier, seed, 1500 if tier == "quick" else 60000)
    nr = 32 if tier == "quick" else 1280
    jobs = [{"module": "props.c19", "func": "pure_grid", "kwargs": {}}]
    jobs += [{"module": "props.c19", "func": "real_shard", "kwargs": {"seed": common.derive_seed(seed, ID, "r", i), "n": nr // 8}} for i in range(8)]
    a2, not_run = run_jobs(jobs, tag="c19", timeout_s=1500 if tier == "quick" else 7200)
    acc.merge(a2, sample_cap=10)
    if not_run:
        acc.notes.append(f"{not_run} shard processes hit the wall-clock cap")
    return acc


def replay(case, verbose=False):
    if case.get("engine") == "pure":
        common.add_repo_to_path()
        import loky.process_executor as pe
        saved = (pe.MAX_DEPTH, pe._CURRENT_DEPTH)
        try:
            pe.MAX_DEPTH, pe._CURRENT_DEPTH = case["MAX_DEPTH"], case["depth"]
            expect_ok = (case["MAX_DEPTH"] <= 0 or case["depth"] < case["MAX_DEPTH"]) and not (case["method"] == "fork" and case["depth"] >= 1)
            try:
                pe._check_max_depth(_Ctx(case["method"]))
                got = True
            except pe.LokyRecursionError:
                got = False
            return [] if got == expect_ok else [{"kind": "depth_check_differs", "detail": str(case), "case": case}]
        finally:
            pe.MAX_DEPTH, pe._CURRENT_DEPTH = saved
    if case.get("engine") == "real":
        from real import runner
        base = runner.workdir("c19replay")
        res = runner.run("drv_c19.py", case["prog"], base, timeout=300, env_extra={"LOKY_MAX_DEPTH": case["LOKY_MAX_DEPTH"]})
        out = []
        for o in res["out"]:
            if "tree" in o:
                _walk(o["tree"], case["LOKY_MAX_DEPTH"], out)
        if verbose:
            print(res["out"], res["err"][-300:])
        return [{"kind": k, "detail": d, "case": case} for k, d in out]
    from sim.run import replay_case, replay_in_subprocess
    import importlib
    if verbose:
        return replay_case(importlib.import_module("props.c19"), case, verbose=True)
    return replay_in_subprocess(ID, case)
