"""C13 - no named semaphore or tracked resource outlives its process tree (REAL)."""
import glob
import os
import signal
import time

from vlib import common
from vlib.common import Acc, HarnessError

ID = "C13"
RULE = (
    "A fresh driver interpreter runs a generated history over loky's Lock/RLock/Semaphore/BoundedSemaphore/Condition/"
    "Event/Queue/SimpleQueue and executors (ops: new, del+gc, send a pickled copy to a LokyProcess child that uses it, "
    "submit, crash a worker) and then ends in a generated way: release everything then exit, plain exit with objects "
    "alive, uncaught exception, os._exit, broken pool then exit, or SIGKILL of the parent at a generated op (the driver "
    "reports 'at k' and blocks; the harness kills it). The harness lists /dev/shm/sem.loky-<pid>-*: right after del+gc "
    "the entries created for that object must be gone; after the tree and its tracker have ended no entry carrying the "
    "driver's pid may remain; when everything was properly released the tracker must not report leaked semlocks. "
    "Non-trivial = the history created >= 1 object that was still alive at an abrupt ending, or deleted >= 1 object."
)
ASSUMPTIONS = ["/dev/shm is the named-semaphore namespace (Linux)", "histories whose ending is SIGKILL or os._exit of the parent contain no "
               "executor (workers with timeout=None outlive a SIGKILLed parent by design, see test_sigkill_shutdown_leaks_workers)"]
# NamedSem: the base class with an explicit name of the caller's choosing (separator characters included)
KINDS = ["Lock", "RLock", "Semaphore", "BoundedSemaphore", "Condition", "Event", "Queue", "SimpleQueue", "NamedSem", "executor"]
EXPECTED_SEMS = {"Lock": 1, "RLock": 1, "Semaphore": 1, "BoundedSemaphore": 1, "Condition": 4, "Event": 5, "Queue": 3, "SimpleQueue": 2, "NamedSem": 1}


def _sems_of(pid):
    return sorted(glob.glob(f"/dev/shm/sem.loky-{pid}-*"))


def run_one(prog, base):
    from real import runner
    res, p = runner.run_driver("drv_c13.py", prog, base, timeout=0.001 if False else 200)
    info = {"killed": False}
    if prog["ending"] == "sigkill":
        # the driver blocks at its pause op: res came back only at the watchdog -> we poll instead
        pass
    return res, p, info


def execute(prog, base):
    """Runs the driver; for the SIGKILL ending, waits for the 'at k' line and kills only the driver process."""
    import json
    import subprocess
    from real import runner
    if prog["ending"] != "sigkill":
        res, p = runner.run_driver("drv_c13.py", prog, base, timeout=240)
        pid = p.pid
        # the tracker outlives the driver for a moment: wait until no process of the session is left (<= 30 s)
        t0 = time.time()
        while runner.session_pids(pid) and time.time() - t0 < 30:
            time.sleep(0.05)
        left = runner.session_pids(pid)
        sems_after = _sems_of(pid)
        res = runner.finish(res, p)
        res.update(driver_pid=pid, sems_after=sems_after, session_left=left)
        return res
    # SIGKILL ending: start, poll the output for the pause record, kill the driver only
    d = os.path.join(base, f"k{time.time_ns()}")
    os.makedirs(d)
    pf = os.path.join(d, "prog.json")
    with open(pf, "w") as fh:
        json.dump(prog, fh)
    env = dict(os.environ, PYTHONPATH=os.pathsep.join([common.REPO, common.VERIF]), LOKY_REPO=common.REPO, PYTHONHASHSEED="0")
    outf, errf = os.path.join(d, "out.jsonl"), os.path.join(d, "err.txt")
    with open(outf, "w") as out, open(errf, "w") as err:
        p = subprocess.Popen([common.PY, "-u", os.path.join(runner.REAL_DIR, "drv_c13.py"), pf, d], stdout=out, stderr=err,
                             stdin=subprocess.DEVNULL, env=env, cwd=d, start_new_session=True)
    t0 = time.time()
    paused = False
    while time.time() - t0 < 120:
        if '"at"' in open(outf).read():
            paused = True
            break
        if p.poll() is not None:
            break
        time.sleep(0.05)
    sems_at_kill = _sems_of(p.pid)
    if paused:
        os.kill(p.pid, signal.SIGKILL)
    p.wait(timeout=30)
    t0 = time.time()
    while runner.session_pids(p.pid) and time.time() - t0 < 30:
        time.sleep(0.05)
    left = runner.session_pids(p.pid)
    sems_after = _sems_of(p.pid)
    res = {"rc": p.returncode, "timed_out": False, "dir": d, "pid": p.pid}
    res = runner.finish(res, p)
    res.update(driver_pid=p.pid, sems_after=sems_after, session_left=left, paused=paused, sems_at_kill=sems_at_kill)
    return res


def oracle(prog, res):
    v = []
    out = res["out"]
    if not out or not out[0].get("start"):
        return [("driver_incomplete", f"rc={res['rc']} err={res['err'][-400:]}")]
    for o in out:
        if o.get("op") and o["op"][0] == "new" and o["op"][2] in EXPECTED_SEMS and len(o["created"]) != EXPECTED_SEMS[o["op"][2]]:
            # (informational cross-check of the observer itself: each primitive is built from a known number of semaphores)
            v.append(("observer_mismatch", f"{o['op'][2]} created {len(o['created'])} named semaphores, expected {EXPECTED_SEMS[o['op'][2]]}"))
        if o.get("op") and o["op"][0] == "del" and o.get("still_there"):
            v.append(("semaphore_survives_its_object", f"after del+gc of {o['op'][1]}: {o['still_there']} still in /dev/shm"))
    for o in out:
        if o.get("missing_live"):
            v.append(("live_semaphore_unlinked", f"named semaphores of objects that are still alive vanished from /dev/shm: {o['missing_live'][:4]}"))
    if res["session_left"]:
        v.append(("tree_did_not_end", f"processes of the driver's session still alive 30 s after it ended: {res['session_left']}"))
    else:
        # (entries that were already there when the driver started belong to an earlier process that had the same pid)
        stale = set(out[0].get("sems") or [])
        left = [x for x in res["sems_after"] if x not in stale]
        if left:
            v.append(("semaphore_outlives_tree", f"ending={prog['ending']}: after the tree and its tracker ended, {len(left)} "
                      f"entries remain: {left[:5]}"))
    if prog["ending"] == "release_all_then_exit" and ("leaked semlock" in res.get("err", "") or "resource_tracker: /loky" in res.get("err", "")):
        v.append(("leak_reported_for_released_objects", res["err"][-400:]))
    if prog["ending"] in ("release_all_then_exit", "exit") and res["rc"] != 0:
        v.append(("driver_failed", f"rc={res['rc']} {res['err'][-400:]}"))
    return v


def real_shard(seed, n, tier="quick"):
    import hypothesis
    from hypothesis import given, settings, HealthCheck, Phase, strategies as st
    from real import runner

    acc = Acc()
    fails = []
    base = runner.workdir("c13real")
    phases = [Phase.generate] if tier == "quick" else [Phase.generate, Phase.shrink]

    @st.composite
    def progs(draw):
        ending = draw(st.sampled_from(["release_all_then_exit", "exit", "exception", "os_exit", "sigkill", "broken_then_exit"]))
        werror = draw(st.sampled_from([False, False, False, True]))
        kinds = [k for k in KINDS if not ((werror or ending in ("sigkill", "os_exit")) and k == "executor")]
        if werror and ending == "broken_then_exit":
            ending = "exit"
        ops = []
        live = []
        unlinked = set()
        nobj = 0
        for _ in range(draw(st.integers(1, 8))):
            what = draw(st.sampled_from(["new", "new", "new", "del", "send", "submit", "unlink_behind"]))
            if what == "new":
                kind = draw(st.sampled_from(kinds))
                key = f"o{nobj}"
                nobj += 1
                op = ["new", key, kind]
                if kind == "executor":
                    op += [draw(st.integers(1, 2)), draw(st.sampled_from([None, 0.2, 10]))]
                ops.append(op)
                live.append((key, kind))
            elif live:
                key, kind = draw(st.sampled_from(live))
                if what == "del":
                    ops.append(["del", key])
                    live.remove((key, kind))
                elif what == "send" and kind != "executor" and key not in unlinked:
                    ops.append(["send", key, draw(st.sampled_from([0, 0.05]))])
                elif what == "unlink_behind" and kind != "executor":
                    ops.append(["unlink_behind", key])
                    unlinked.add(key)
                elif what == "submit" and kind == "executor":
                    ops.append(["submit", key, draw(st.integers(0, 9))])
        if ending == "broken_then_exit":
            ops.append(["new", f"o{nobj}", "executor", 2, None])
            ops.append(["crash", f"o{nobj}"])
            ending = "exit"
        if ending == "sigkill":
            ops.insert(draw(st.integers(0, len(ops))), ["pause_for_kill"])
        return {"ops": ops, "ending": ending, "threads_first": draw(st.sampled_from([0, 0, 2, 4])), "werror": werror}

    @hypothesis.seed(seed)
    @settings(max_examples=n, database=None, deadline=None, suppress_health_check=list(HealthCheck), report_multiple_bugs=False,
              phases=phases)
    @given(progs())
    def t(prog):
        res = execute(prog, base)
        case = {"engine": "real", "prog": prog}
        v = oracle(prog, res)
        if v and v[0][0] == "driver_incomplete":
            raise HarnessError(f"C13 driver incomplete: {v[0][1]} prog={prog}")
        if not fails:
            nt = any(o[0] == "del" for o in prog["ops"]) or (prog["ending"] != "release_all_then_exit" and any(o[0] == "new" for o in prog["ops"]))
            acc.case(case, nt)
            acc.count("ending:" + prog["ending"])
            if prog.get("werror"):
                acc.count("warnings_as_errors")
            for o in prog["ops"]:
                acc.count("op:" + o[0] + (":" + o[2] if o[0] == "new" else ""))
        if v:
            fails.append({"kind": v[0][0], "detail": v[0][1], "case": case, "where": "real"})
            raise AssertionError(v[0][0])

    try:
        t()
    except BaseException:
        if not fails:
            raise
    finally:
        import shutil
        shutil.rmtree(base, ignore_errors=True)
    if fails:
        acc.violations.append(fails[-1])
    return acc


def run(tier, seed):
    from vlib.shards import run_jobs
    nr = 96 if tier == "quick" else 2400
    jobs = [{"module": "props.c13", "func": "real_shard", "kwargs": {"seed": common.derive_seed(seed, ID, "r", i), "n": nr // 16, "tier": tier}}
            for i in range(16)]
    acc, not_run = run_jobs(jobs, tag="c13", timeout_s=1500 if tier == "quick" else 7200)
    if not_run:
        acc.notes.append(f"{not_run} shard processes hit the wall-clock cap")
    return acc


def replay(case, verbose=False):
    from real import runner
    import shutil
    base = runner.workdir("c13replay")
    res = execute(case["prog"], base)
    if verbose:
        for o in res["out"]:
            print(str(o)[:400])
        print("sems_after", res["sems_after"], "session_left", res["session_left"], "err:", res["err"][-500:])
    v = oracle(case["prog"], res)
    shutil.rmtree(base, ignore_errors=True)
    return [{"kind": k, "detail": d, "case": case} for k, d in v]
