"""C20 - executor lifecycles leak no parent-side resources (REAL)."""
from vlib import common
from vlib.common import Acc, HarnessError

ID = "C20"
RULE = (
    "Hypothesis generates a list of 1-5 executor lifecycles from {plain: clean / with-block / shutdown(wait=False) / "
    "kill_workers / broken by a worker crash / garbage-collected / idle-timed-out and respawned / nested; reusable: clean "
    "/ resized up and down / broken and replaced / replaced with kill_workers / idle-timed-out} with generated worker and "
    "task counts. A fresh driver interpreter runs the list once (warm-up: tracker processes, atexit hooks) and then k in "
    "2..4 more times; after every repetition (gc + settle loop until two consecutive measurements agree) it counts open "
    "descriptors, live threads, child processes (zombies included, tracker processes aside) and "
    "/dev/shm/sem.loky-<pid>-* entries. Oracle: the counts after repetitions 2..k equal those after repetition 1; a leak "
    "is reported only if the excess is still there after the settle loop and grows with every repetition. Non-trivial = "
    "the list contains >= 1 lifecycle other than a clean plain/reusable one."
)
ASSUMPTIONS = ["/proc/self/fd, threading.enumerate(), psutil children and /dev/shm are the observers",
               "a leak must accumulate: equal excess after every repetition is attributed to first-use initialisation"]
KINDS = ["plain_broken_tree", "reusable_grow_worker_killed", "plain_broken_bigargs", "plain_broken_gc", "plain_pickle_error_gc", "plain_clean", "plain_with", "plain_nowait", "plain_kill", "plain_broken", "plain_gc", "plain_idle", "plain_nested",
         "reusable_clean", "reusable_resize", "reusable_broken", "reusable_kill", "reusable_idle"]


def oracle(prog, out):
    reps = [o for o in out if "rep" in o]
    if not any(o.get("done") for o in out) or len(reps) != prog["reps"] + 1:
        return [("driver_incomplete", f"{len(reps)} measurements")]
    v = []
    base = reps[1]["m"]          # repetition 0 is the warm-up
    for key, f in (("descriptors", lambda m: m["nfds"]), ("threads", lambda m: len(m["threads"])),
                   ("children", lambda m: len(m["children"])), ("named_semaphores", lambda m: len(m["sems"]))):
        series = [f(r["m"]) for r in reps[1:]]
        if all(x == series[0] for x in series):
            continue
        growing = all(b > a for a, b in zip(series, series[1:]))
        if growing:
            last = reps[-1]["m"]
            extra = {"descriptors": [x for x in last["fds"] if x not in base["fds"]][:6],
                     "threads": [x for x in last["threads"] if last["threads"].count(x) > base["threads"].count(x)][:6],
                     "children": last["children"][:6], "named_semaphores": [x for x in last["sems"] if x not in base["sems"]][:6]}[key]
            v.append((f"leak_{key}", f"{key} after repetitions 1..{len(series)}: {series} (grows with every repetition); new: {extra}"))
    return v


def _run_prog(runner, prog, base):
    import json
    plan = []
    kinds = {l["kind"] for l in prog["lives"]}
    if "plain_broken_tree" in kinds:
        # fault plan (LOKY_VERIF=1): at every listing of a worker's process tree by the parent, the last listed descendant exits
        # on its own and is reaped before the kills are sent
        plan += [{"point": "kill_tree.listed", "role": "parent", "nth": k, "action": "reap_descendant"} for k in range(1, 80)]
    if "reusable_grow_worker_killed" in kinds:
        # every worker start is followed by a pause before the new process is registered: the kill of an old worker lands
        # while a start is in flight
        plan += [{"point": "spawn.started", "role": "parent", "nth": k, "action": "sleep:120"} for k in range(1, 400)]
    if plan:
        return runner.run("drv_c20.py", prog, base, timeout=600, hooks=True,
                          env_extra={"LOKY_VERIF_PLAN": json.dumps(plan), "LOKY_VERIF_DIR": "."})
    return runner.run("drv_c20.py", prog, base, timeout=600)


def real_shard(seed, n, tier="quick", focus=None):
    import hypothesis
    from hypothesis import given, settings, HealthCheck, Phase, strategies as st
    from real import runner

    acc = Acc()
    fails = []
    base = runner.workdir("c20real")
    life = st.fixed_dictionaries({"kind": st.sampled_from(KINDS), "workers": st.integers(1, 3), "n": st.integers(1, 6)})
    phases = [Phase.generate] if tier == "quick" else [Phase.generate, Phase.shrink]

    @hypothesis.seed(seed)
    @settings(max_examples=n, database=None, deadline=None, suppress_health_check=list(HealthCheck), report_multiple_bugs=False,
              phases=phases)
    @given(st.lists(life, min_size=0 if focus else 1, max_size=4), st.integers(2, 4), st.integers(1, 3), st.integers(1, 6))
    def t(lives, reps, fw, fn):
        if focus:
            # stratification: every shard puts one lifecycle kind of its own in front, so that each kind is exercised by
            # several lists whatever the generator's taste
            lives = [{"kind": focus, "workers": fw, "n": fn}] + lives
        prog = {"lives": lives, "reps": reps}
        res = _run_prog(runner, prog, base)
        if res["timed_out"]:
            raise HarnessError(f"C20 real driver watchdog: prog={prog} err={res['err'][-600:]}")
        case = {"engine": "real", "prog": prog}
        v = oracle(prog, res["out"])
        if v and v[0][0] == "driver_incomplete":
            raise HarnessError(f"C20 driver incomplete rc={res['rc']} prog={prog}: {res['err'][-1500:]}")
        if not fails:
            acc.case(case, any(l["kind"] not in ("plain_clean", "reusable_clean") for l in lives))
            for l in lives:
                acc.count("life:" + l["kind"])
            acc.count(f"reps:{reps}")
        if v:
            fails.append({"kind": v[0][0], "detail": v[0][1], "case": case, "where": "real"})
            raise AssertionError(v[0][0])

    try:
        t()
    except BaseException:
        if not fails:
            raise
    finally:
        import shutil
        shutil.rmtree(base, ignore_errors=True)
    if fails:
        acc.violations.append(fails[-1])
    return acc


def run(tier, seed):
    from vlib.shards import run_jobs
    per = 3 if tier == "quick" else 27
    jobs = [{"module": "props.c20", "func": "real_shard", "kwargs": {"seed": common.derive_seed(seed, ID, "r", i), "n": per, "tier": tier,
                                                                     "focus": KINDS[i]}}
            for i in range(len(KINDS))]      # one shard per lifecycle kind
    acc, not_run = run_jobs(jobs, tag="c20", timeout_s=1500 if tier == "quick" else 7200)
    if not_run:
        acc.notes.append(f"{not_run} shard processes hit the wall-clock cap")
    return acc


def replay(case, verbose=False):
    from real import runner
    import shutil
    base = runner.workdir("c20replay")
    res = _run_prog(runner, case["prog"], base)
    if verbose:
        for o in res["out"]:
            if "rep" in o:
                m = o["m"]
                print(o["rep"], m["nfds"], m["threads"], m["children"], m["sems"])
        print(res["err"][-600:])
    v = oracle(case["prog"], res["out"])
    shutil.rmtree(base, ignore_errors=True)
    return [{"kind": k, "detail": d, "case": case} for k, d in v]
