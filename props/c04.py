"""C04 - task-level failures are contained to their own future (SIM engine)."""
from sim import oracles, strategies
from props._simprop import install

ID = "C04"
RULE = (
    "Fault-free cases with 1-4 workers whose tasks are a mix of healthy ones and task-level failures: raise E(args) "
    "for E incl. SystemExit/KeyboardInterrupt/BaseException/custom, unpicklable argument (feeder error path), "
    "struct.error argument (RuntimeError branch), unpicklable result, done-callbacks that raise Exception/SystemExit; "
    "small call queues (reusable executor with cpu_count=1) so the queue is often full; late probe burst of "
    "capacity+2 submits. Oracle: the faulty future has the task's own exception type/args with _RemoteTraceback cause "
    "(or PicklingError/RuntimeError + cause), siblings have their own outcome, no broken-pool error anywhere, every "
    "worker exit code 0, probe burst completes. Non-trivial = >= 1 failing task and >= 1 healthy sibling."
)


def profile(tier):
    return strategies.profile(
        max_faults=0,
        kinds={"echo": 8, "raise": 5, "unp_arg": 4, "struct_arg": 2, "hugearg": 2, "unp_res": 3, "big": 1, "bigarg": 1, "gate": 1},
        ops={"submit": 12, "result": 2, "cancel": 1, "map": 1, "callback": 3, "sleep": 1, "wait_all": 1, "get": 0},
        timeouts=[None, None, 10, 0.5],
        endings=["wait_all", "none", "wait_all", "wait_shutdown"],
        probe=7, initializers=["none", "ok"],
    )


FAIL = ("raise", "unp_arg", "struct_arg", "unp_res", "hugearg")


def nontrivial(H):
    kinds = [f["spec"]["kind"] for f in H.futures.values()]
    return any(k in FAIL for k in kinds) and any(k not in FAIL for k in kinds)


def oracle(H):
    return oracles.c04(H)


def post_adjust(case):
    # callbacks that submit are C01's business (and excluded on reusable executors); here they only raise
    for ops in case["program"]:
        for op in ops:
            if op[0] == "callback" and op[2] == "submit":
                op[2] = "raise_sysexit"
    return case


SWEEP = (4, 120)
install(globals(), ID, 3000, 40000)
