"""Task bodies for REAL fault-point checks."""
import os
import time


def echo(i):
    return ("ok", i, os.getpid())


def nap(i, t):
    time.sleep(t)
    return ("ok", i, os.getpid())


def big(i, n):
    return ("ok", i, os.getpid(), b"x" * n)


def tree(i, n):
    """A task whose worker has n helper subprocesses (reaped promptly by the worker when they end) while it runs."""
    import subprocess
    import threading
    ps = [subprocess.Popen(["sleep", "60"], stdin=subprocess.DEVNULL) for _ in range(n)]
    for p in ps:
        threading.Thread(target=p.wait, daemon=True).start()
    time.sleep(12)
    for p in ps:
        p.kill()
    return ("ok", i, os.getpid())
