"""Task bodies for REAL fault-point checks."""
import os
import time


def echo(i):
    return ("ok", i, os.getpid())


def nap(i, t):
    time.sleep(t)
    return ("ok", i, os.getpid())


def big(i, n):
    return ("ok", i, os.getpid(), b"x" * n)
