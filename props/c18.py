"""C18 - every worker is a fresh, initialised interpreter with only intended inheritance (REAL + PURE side check)."""
from vlib import common
from vlib.common import Acc, HarnessError

ID = "C18"
RULE = (
    "REAL: a fresh driver interpreter per case. (a) the parent opens 0-12 extra descriptors (files, pipe ends, sockets; "
    "inheritable or not; some dup2'ed to numbers up to 200) and a worker reports its /proc/self/fd link targets: none of "
    "the parent's extras may appear and the count must equal a baseline worker's; (b) env= overlays (new keys, overrides "
    "of HOME/PATH-like variables, empty values): the worker's environment at interpreter start-up (sitecustomize), at "
    "first import of a user module and at task time must be parent-env overlaid with env=; (c) LokyProcess children "
    "ending by os._exit(n)/sys.exit(n) for n in 0..255, return, uncaught exception or a terminating signal: exitcode is "
    "None and the sentinel is not ready while alive, then exitcode == n / 1 / -sig and the sentinel is ready; (d) an "
    "initializer numbers every spawn and sets a marker: across idle-timeout respawns, memory-leak exits and resizes "
    "every task result carries the marker, and an initializer failing on the k-th spawn yields broken-pool errors, never "
    "an unmarked result; (e) a script with a top-level side effect and no __main__ guard runs its side effect once. "
    "PURE: _prepare_initializer/_chain_initializers call every non-None initializer once, in order, with its own args; "
    "a non-callable initializer raises TypeError. Non-trivial = >= 1 inheritable extra descriptor or a non-empty overlay "
    "(a/b), a non-zero status (c), a respawn/resize/failure happened (d)."
)
ASSUMPTIONS = ["Linux /proc is the observer of descriptors", "default 'loky' start method"]
SIGS = [9, 15, 11, 6, 10, 1, 3]


def oracle(prog, out):
    v = []
    if not any(o.get("done") for o in out):
        return [("driver_incomplete", f"last outputs {out[-2:]}")]
    for o in out:
        part = o.get("part")
        if part == "fds_env":
            wt = set(o["worker"]["fds"].values())
            leaked = [e for e in o["extras"] if e["target"] in wt]
            if leaked:
                v.append(("parent_descriptor_inherited", f"worker holds {leaked}"))
            nb, nw = len(o["baseline"]["fds"]), len(o["worker"]["fds"])
            if nb != nw and not leaked:
                v.append(("worker_descriptor_count_differs", f"baseline worker has {nb} descriptors, worker started with "
                          f"{len(o['extras'])} extra parent descriptors has {nw}: {sorted(o['worker']['fds'].items())}"))
            for k, pv in o["parent_env"].items():
                want = prog["env"].get(k, pv)
                for where in ("env", "env_at_import", "env_at_startup"):
                    snap = o["worker"].get(where)
                    if snap is None:
                        v.append(("startup_probe_missing", where))
                        continue
                    if snap.get(k) != want:
                        v.append(("worker_environment_differs", f"{k}: worker sees {snap.get(k)!r} ({where}), expected {want!r} "
                                  f"(parent {pv!r}, overlay {prog['env'].get(k)!r})"))
        elif part == "env_change":
            if o["first_pid"] != o["second_pid"]:
                ov = prog["env"]          # (the harness' own copy: the driver's dict is the object handed to loky)
                for k, pv in o["parent_now"].items():
                    want = ov.get(k, pv)
                    got = (o["second_env"] or {}).get(k)
                    if got != want:
                        v.append(("later_worker_environment_stale", f"{k}: a worker spawned after the parent's environment changed sees "
                                  f"{got!r} at start-up, expected {want!r} (parent now {pv!r}, overlay {ov.get(k)!r})"))
        elif part == "exit":
            s = o["spec"]
            want = {"os_exit": s.get("n"), "sys_exit": s.get("n"), "return": 0, "raise": 1}.get(s["how"])
            if s["how"] == "signal":
                want = -s["sig"]
            b, a = o["before"], o["after"]
            if not b["alive"] or b["exitcode"] is not None or b["sentinel_ready"]:
                v.append(("liveness_misreported_while_alive", f"{s}: {b}"))
            if a["alive"] or a["exitcode"] != want or not a["sentinel_ready"]:
                v.append(("exit_status_misreported", f"{s}: expected exitcode {want}, got {a}"))
        elif part == "init":
            ini = prog["init"]
            broken_seen = False
            for r in o["results"]:
                if r[0] == "ok":
                    if r[1]["mark"] != ini["mark"]:
                        v.append(("task_ran_on_uninitialised_worker", f"{r[1]} expected marker {ini['mark']}"))
                    if broken_seen and not ini["executor"] == "reusable":
                        v.append(("result_after_pool_broke", f"{r}"))
                elif r[0] == "exc":
                    if "BrokenProcessPool" in r[2]:
                        broken_seen = True
                    elif not (broken_seen and "ShutdownExecutorError" in r[2]):
                        v.append(("unexpected_task_error", f"{r}"))
                elif r[0] == "resize_exc":
                    v.append(("resize_failed", f"{r}"))
            if not ini["fail_on"] and broken_seen:
                v.append(("pool_broke_without_initializer_failure", f"{o['results'][:4]}"))
            replaced = ini["executor"] == "reusable" and ini["resize_at"]    # a broken singleton is replaced by a fresh one
            if ini["fail_on"] and min(ini["fail_on"]) < o["nspawns"] and not broken_seen and not o.get("broke") and not replaced:
                v.append(("initializer_failure_did_not_break_pool", f"spawn {min(ini['fail_on'])} failed its initializer "
                          f"({o['nspawns']} spawns) but the pool still accepted and ran work 8 s later: {o['results'][:5]}"))
        elif part == "main":
            if o["rc"] != 0 or f"RESULT {o['expected']}" not in o["stdout"]:
                v.append(("guardless_script_failed", f"rc={o['rc']} stdout={o['stdout']!r} stderr={o['stderr'][-200:]!r}"))
            elif o["side_effects"] != 1:
                v.append(("main_module_rerun_in_workers", f"top-level side effect ran {o['side_effects']} times"))
    return v


def real_shard(seed, n, tier="quick"):
    import hypothesis
    from hypothesis import given, settings, HealthCheck, Phase, strategies as st
    from real import runner
    phases = [Phase.generate] if tier == "quick" else [Phase.generate, Phase.shrink]

    acc = Acc()
    fails = []
    base = runner.workdir("c18real")
    fdspec = st.fixed_dictionaries({"kind": st.sampled_from(["file", "pipe", "socket"]), "inheritable": st.booleans(),
                                    "dup_to": st.sampled_from([None, None, None, 17, 64, 120, 200])})
    envs = st.dictionaries(st.sampled_from(["C18_NEW", "C18_OTHER", "HOME", "LANG", "C18_EMPTY", "PYTHONHASHSEED_X"]),
                           st.sampled_from(["v1", "", "with space", "/tmp/x:y", "é".encode("utf8").decode("latin1")[:1] and "e2"]), max_size=4)
    exitspec = st.one_of(
        st.fixed_dictionaries({"how": st.sampled_from(["os_exit", "sys_exit"]), "n": st.integers(0, 255)}),
        st.fixed_dictionaries({"how": st.just("signal"), "sig": st.sampled_from(SIGS)}),
        st.fixed_dictionaries({"how": st.just("signal"), "sig": st.sampled_from([11, 6, 3, 8]), "core": st.just(True)}),
        st.fixed_dictionaries({"how": st.sampled_from(["return", "raise"])}))
    inits = st.fixed_dictionaries({
        "executor": st.sampled_from(["plain", "reusable"]), "workers": st.integers(1, 2), "timeout": st.sampled_from([None, 0.15, 20]),
        "mark": st.integers(1, 10 ** 6), "fail_on": st.sampled_from([[], [], [], [1], [2], [0]]), "memleak": st.booleans(),
        "ntasks": st.integers(3, 7), "gaps": st.lists(st.integers(0, 5), max_size=2), "resize_at": st.lists(st.integers(0, 4), max_size=1),
        # the executor is shut down (wait=True) with this many tasks still queued: workers respawned meanwhile (memory-leak
        # recycling, idle time-out) are workers like the others
        "pending_shutdown": st.sampled_from([0, 0, 4, 8])})

    @hypothesis.seed(seed)
    @settings(max_examples=n, database=None, deadline=None, suppress_health_check=list(HealthCheck), report_multiple_bugs=False,
              phases=phases)
    @given(st.lists(fdspec, max_size=12, unique_by=lambda d: d["dup_to"] if d["dup_to"] else id(d)), envs,
           st.lists(exitspec, max_size=3), st.one_of(st.none(), inits), st.booleans())
    def t(fds, env, exits, ini, main):
        prog = {"fds": fds, "env": env, "exits": exits, "init": ini, "env_change": bool(env) or len(fds) % 2 == 0,
                "main_script": {"workers": 2, "n": 6, "as_module": len(fds) % 2 == 1} if main else None}
        res = runner.run("drv_c18.py", prog, base, timeout=400)
        if res["timed_out"]:
            raise HarnessError(f"C18 real driver watchdog: prog={prog} err={res['err'][-600:]}")
        case = {"engine": "real", "prog": prog}
        v = oracle(prog, res["out"])
        if v and v[0][0] == "driver_incomplete":
            raise HarnessError(f"C18 driver incomplete rc={res['rc']}: {res['err'][-1200:]}")
        nt = any(f["inheritable"] for f in fds) or bool(env) or any(e.get("n") or e["how"] in ("signal", "raise") for e in exits) \
            or bool(ini and (ini["fail_on"] or ini["memleak"] or ini["gaps"] or ini["resize_at"] or ini.get("pending_shutdown")))
        if not fails:
            acc.case(case, nt)
            acc.count("extra_fds", len(fds))
            acc.count("exit_specs", len(exits))
            acc.count("init_cases", 1 if ini else 0)
            acc.count("main_script_cases", 1 if main else 0)
            for o in res["out"]:
                if o.get("part") == "init":
                    acc.count("spawns_in_init_cases", o["nspawns"])
        if v:
            fails.append({"kind": v[0][0], "detail": v[0][1], "case": case, "where": "real"})
            raise AssertionError(v[0][0])

    try:
        t()
    except BaseException:
        if not fails:
            raise
    finally:
        import shutil
        shutil.rmtree(base, ignore_errors=True)
    if fails:
        acc.violations.append(fails[-1])
    return acc


def pure_shard(seed, n):
    import hypothesis
    from hypothesis import given, settings, HealthCheck, strategies as st
    common.add_repo_to_path()
    from loky import initializers as I

    acc = Acc()
    fails = []

    @hypothesis.seed(seed)
    @settings(max_examples=n, database=None, deadline=None, suppress_health_check=list(HealthCheck), report_multiple_bugs=False)
    @given(st.lists(st.tuples(st.booleans(), st.lists(st.integers(0, 9), max_size=3)), max_size=5), st.sampled_from(["ok", "noncallable"]))
    def t(spec, mode):
        calls = []

        def mk(i):
            return lambda *a: calls.append((i, a))

        pairs = [((mk(i) if present else None), tuple(args)) for i, (present, args) in enumerate(spec)]
        case = {"engine": "pure", "spec": [[p, a] for p, a in spec], "mode": mode}
        acc.case(case, sum(1 for p, _ in spec if p) >= 2)
        bad = None
        if mode == "noncallable":
            try:
                I._prepare_initializer(42, ())
                bad = ("noncallable_initializer_accepted", "")
            except TypeError:
                pass
        init, args = I._chain_initializers(pairs)
        want = [(i, tuple(a)) for i, (p, a) in enumerate(spec) if p]
        if init is None:
            if want:
                bad = ("initializers_dropped", f"{spec}")
        else:
            if len(want) == 1:
                init(*args)
            else:
                init(*args)
            if calls != want:
                bad = ("chained_initializers_differ", f"called {calls}, expected {want}")
        if bad:
            fails.append({"kind": bad[0], "detail": bad[1], "case": case, "where": "pure"})
            raise AssertionError(bad[0])

    try:
        t()
    except BaseException:
        if not fails:
            raise
    if fails:
        acc.violations.append(fails[-1])
    return acc


def run(tier, seed):
    from vlib.shards import run_jobs
    nr = 64 if tier == "quick" else 3200
    jobs = [{"module": "props.c18", "func": "real_shard", "kwargs": {"seed": common.derive_seed(seed, ID, "r", i), "n": nr // 16, "tier": tier}} for i in range(16)]
    jobs.append({"module": "props.c18", "func": "pure_shard", "kwargs": {"seed": common.derive_seed(seed, ID, "p"), "n": 2000 if tier == "quick" else 100000}})
    acc, not_run = run_jobs(jobs, tag="c18", timeout_s=1500 if tier == "quick" else 7200)
    if not_run:
        acc.notes.append(f"{not_run} shard processes hit the wall-clock cap")
    return acc


def replay(case, verbose=False):
    if case.get("engine") != "real":
        return []
    from real import runner
    import shutil
    base = runner.workdir("c18replay")
    res = runner.run("drv_c18.py", case["prog"], base, timeout=400)
    if verbose:
        for o in res["out"]:
            print(str(o)[:1500])
        print(res["err"][-800:])
    v = oracle(case["prog"], res["out"])
    shutil.rmtree(base, ignore_errors=True)
    return [{"kind": k, "detail": d, "case": case} for k, d in v]
