"""Task bodies for the C06 REAL part: tasks that create descendants and record their pids."""
import json
import os
import subprocess
import sys
import time


def _record(outdir, tag, data):
    tmp = os.path.join(outdir, f"pids_{tag}.json.tmp")
    with open(tmp, "w") as fh:
        json.dump(data, fh)
    os.replace(tmp, os.path.join(outdir, f"pids_{tag}.json"))


def _nested_sleep(outdir, tag, t):
    _record(outdir, tag + "_nw", {"pid": os.getpid(), "kind": "nested_worker"})
    time.sleep(t)
    return 1


def job(spec, outdir, tag):
    """Creates descendants as told, records every pid, then blocks (or finishes) - writes an end marker when it finishes."""
    made = {"pid": os.getpid(), "kind": "worker", "sub": [], "nested": []}
    keep = []
    for i in range(spec.get("subprocs", 0)):
        p = subprocess.Popen([sys.executable, "-c", "import time; time.sleep(90)"], stdin=subprocess.DEVNULL)
        keep.append(p)
        made["sub"].append(p.pid)
    if spec.get("nested"):
        from loky.process_executor import ProcessPoolExecutor
        ex = ProcessPoolExecutor(max_workers=spec["nested"])
        fs = [ex.submit(_nested_sleep, outdir, f"{tag}_{j}", 90) for j in range(spec["nested"])]
        keep.append((ex, fs))
        t0 = time.time()
        while time.time() - t0 < 30 and len(ex._processes) < spec["nested"]:
            time.sleep(0.01)
        time.sleep(0.3)
        made["nested"] = sorted(ex._processes)
    _record(outdir, tag, made)
    if spec.get("finish"):
        # fire-and-forget: the task returns, its descendants stay behind in the worker
        import atexit  # noqa: F401
        globals().setdefault("_KEEP", []).append(keep)
        return ("done", tag)
    time.sleep(spec.get("sleep", 60))
    open(os.path.join(outdir, f"end_{tag}"), "w").close()
    return ("slept", tag)
