"""C03 - right result to the right future, at-most-once execution, map == builtin map (PURE + SIM)."""
import itertools

from sim import oracles, strategies
from props._simprop import install
from vlib import common
from vlib.common import Acc

ID = "C03"
RULE = (
    "SIM part: fault-free cases mixing submit/cancel from 1-3 threads, map with generated (unequal) lengths and "
    "chunksizes, idle timeouts (respawns) and reusable-executor resizes; every body logs its execution. Oracle: a "
    "value is the value of the future's own token; each token executes <= 1 time and 0 times if cancel() returned "
    "True; map output == list(map(fn, *iterables)); map bodies run no more often than submitted. "
    "PURE part: _get_chunks/_process_chunk/_chain_from_iterable_of_lists composed as map composes them vs builtin map "
    "for 0-4 iterables of lengths 0-40 and chunksize 1-50 (chunksize < 1 must raise ValueError). "
    "Non-trivial = >= 1 cancel attempt, or a respawn/resize happened, or a map with unequal lengths and chunksize > 1."
)


def profile(tier):
    return strategies.profile(
        max_faults=0,
        kinds={"echo": 12, "gate": 2, "big": 2, "bigarg": 1, "raise": 2},
        ops={"submit": 10, "result": 2, "cancel": 4, "map": 3, "sleep": 2, "get": 2, "wait_all": 1, "callback": 0},
        timeouts=[None, 10, 0.5, 1e-3, 0],
        endings=["wait_all", "wait_all", "wait_shutdown", "shutdown_wait", "none"],
        get_args={"reuse": ["auto", True]},
        initializers=["none"],
    )


def nontrivial(H):
    if any(o["op"][0] == "cancel" for o in H.ops):
        return True
    if any("A worker stopped" in x for x in H.warnings) or len(H.procs) > H.case["config"]["max_workers"]:
        return True
    return any(len(set(m["args"]["lens"])) > 1 and m["args"]["chunksize"] > 1 for m in H.maps)


def oracle(H):
    return oracles.c03(H) + [v for v in oracles.liveness(H) if v["kind"] == "livelock"]


def classify(acc, H):
    acc.count("cancel_true", sum(1 for f in H.futures.values() if f.get("cancel")))
    acc.count("maps", len(H.maps))
    acc.count("respawn_or_resize_cases", 1 if len(H.procs) > H.case["config"]["max_workers"] else 0)


# ----------------------------------------------------------------------------- PURE part
def _fn(*a):
    return ("f",) + a


def pure_shard(seed, n):
    import hypothesis
    from hypothesis import given, settings, strategies as st, HealthCheck
    common.add_repo_to_path()
    import loky.process_executor as pe

    acc = Acc()
    failing = []

    @hypothesis.seed(seed)
    @settings(max_examples=n, database=None, deadline=None, suppress_health_check=list(HealthCheck),
              report_multiple_bugs=False)
    @given(st.lists(st.integers(0, 40), min_size=0, max_size=4), st.integers(-2, 50))
    def t(lens, chunksize):
        its = [list(range(1000 * j, 1000 * j + m)) for j, m in enumerate(lens)]
        case = {"pure": True, "lens": lens, "chunksize": chunksize}
        acc.case(case, len(set(lens)) > 1 and chunksize > 1)
        if chunksize < 1:
            try:
                pe.ProcessPoolExecutor.map(None, _fn, *its, chunksize=chunksize)
            except ValueError:
                return
            except Exception as e:
                failing.append({"kind": "chunksize_lt1_wrong_error", "detail": repr(e), "case": case, "where": "pure"})
                raise AssertionError
            failing.append({"kind": "chunksize_lt1_accepted", "detail": "no ValueError", "case": case, "where": "pure"})
            raise AssertionError
        chunks = list(pe._get_chunks(chunksize, *its))
        results = (pe._process_chunk(_fn, c) for c in chunks)
        got = list(pe._chain_from_iterable_of_lists(results))
        exp = list(map(_fn, *its)) if its else []
        if not its:
            # zip() of nothing is empty: map over no iterables yields nothing
            exp = []
        if got != exp or any(len(c) > chunksize or len(c) == 0 for c in chunks):
            failing.append({"kind": "map_composition_differs", "detail": f"got {got[:6]}.. expected {exp[:6]}.. chunks {[len(c) for c in chunks]}",
                            "case": case, "where": "pure"})
            raise AssertionError

    try:
        t()
    except AssertionError:
        acc.violations.append(failing[-1])
    return acc


SWEEP = (6, 100)
install(globals(), ID, 2500, 30000)
_sim_run = run
_sim_replay = replay


def run(tier, seed):
    from vlib.shards import run_jobs
    acc = _sim_run(tier, seed)
    n = 4000 if tier == "quick" else 40000
    a2, _ = run_jobs([{"module": "props.c03", "func": "pure_shard",
                       "kwargs": {"seed": common.derive_seed(seed, ID, "pure", i), "n": n // 4}} for i in range(4)],
                     tag="c03-pure")
    acc.merge(a2, sample_cap=8)
    return acc


def replay(case, verbose=False):
    if case.get("pure"):
        common.add_repo_to_path()
        import loky.process_executor as pe
        its = [list(range(1000 * j, 1000 * j + m)) for j, m in enumerate(case["lens"])]
        cs = case["chunksize"]
        if cs < 1:
            try:
                pe.ProcessPoolExecutor.map(None, _fn, *its, chunksize=cs)
            except ValueError:
                return []
            return [{"kind": "chunksize_lt1_accepted", "detail": "", "case": case}]
        got = list(pe._chain_from_iterable_of_lists(pe._process_chunk(_fn, c) for c in pe._get_chunks(cs, *its)))
        exp = list(map(_fn, *its)) if its else []
        return [] if got == exp else [{"kind": "map_composition_differs", "detail": f"{got} vs {exp}", "case": case}]
    return _sim_replay(case, verbose)
