"""C08 - parallelism never exceeds max_workers and is actually delivered (SIM engine)."""
from sim import oracles, strategies
from props._simprop import install

ID = "C08"
RULE = (
    "Profile 'invariant': fault-free cases (plain and reusable executors, 1-3 submitting threads, idle timeouts, "
    "respawns, resizes up and down); the number of task bodies executing is sampled at every body start and the number "
    "of registered workers at every spawn/body start/end; both must stay <= the largest max_workers in force since the "
    "last completed resize. Profile 'delivery': one thread does light work / idle gaps / resizes and then submits "
    ">= max_workers never-returning gate tasks; 5000 logical seconds later (everything settled) exactly max_workers "
    "bodies must be executing. Non-trivial = >= 2 bodies overlapped at some point, or a respawn/resize happened, or "
    "(delivery) the gate observation was made with >= max_workers gates pending."
)


def profile(tier):
    return strategies.profile(
        max_faults=0, mem=True,
        kinds={"echo": 8, "gate": 5, "big": 1, "raise": 1},
        ops={"submit": 12, "result": 1, "cancel": 1, "map": 1, "sleep": 2, "get": 3, "wait_all": 1, "callback": 0},
        timeouts=[None, 10, 0.5, 1e-3, 0],
        endings=["wait_all", "wait_all", "none", "wait_shutdown"],
        get_args={"reuse": ["auto", True]},
        initializers=["none"], gate_delays=[0.4, 3.0, 20.0, 200.0],
    )


def delivery(tier):
    return strategies.profile(shape="delivery", max_faults=0, timeouts=[None, 10, 0.5, 1e-3, 0],
                              executors=["plain", "reusable", "reusable"])


def nontrivial(H):
    if H.case.get("_final_max_workers") is not None or len(H.case["program"]) == 2 and H.case["program"][1][0] == ["sleep", 5000.0]:
        return any(g["executors"] and g["unfinished_gates"] >= g["executors"][0]["max_workers"] for g in H.gate_open_obs)
    return H.max_concurrency >= 2 or len(H.procs) > H.case["config"]["max_workers"]


def classify(acc, H):
    acc.count(f"max_concurrency:{min(H.max_concurrency, 5)}")
    acc.count("reg_samples", len(H.reg_samples))
    acc.count("delivery_observations", sum(1 for g in H.gate_open_obs if g["executors"] and
                                           g["unfinished_gates"] >= g["executors"][0]["max_workers"]))


def oracle(H):
    v = oracles.c08(H)
    if len(H.case["program"]) == 2 and H.case["program"][1][0] == ["sleep", 5000.0]:
        v += oracles.c08_delivery(H)
    v += [x for x in oracles.liveness(H) if x["kind"] == "livelock"]
    return v


SWEEP = (4, 100)
install(globals(), ID, 3500, 40000, profiles=[("profile", 0.55), ("delivery", 0.45)])
