"""C01 - every submitted future resolves and no API call hangs (SIM engine, deciding)."""
from sim import oracles, strategies
from sim.run import run_sim, replay_in_subprocess
from vlib import findings_sim

ID = "C01"
RULE = (
    "Case = (executor config, 1-3 user threads of generated ops, schedule (default / <=4 planned preemptions / "
    "random-walk prefix), 0-2 abrupt worker deaths placed at the n-th scheduling point of the k-th spawned worker). "
    "loky's real code runs on the simulated kernel until no action is enabled. Non-trivial = at least one of: an "
    "abrupt death happened, a timer fired while work was pending, a (un)pickling failure task, shutdown/del/exit "
    "issued with unfinished futures, >=2 user threads. Distinct by hash of (config, program, faults, schedule prefix)."
)
ASSUMPTIONS = [
    "SIM kernel model of pipes (64 KiB, 4 KiB atomic writes), POSIX named semaphores, processes and sentinels "
    "(DESIGN.md Appendix A); conformance of the primitives is checked by selftest/conformance.py",
    "a runnable thread/process gets the CPU within T=1 s of logical time (fairness bound on the timer adversary)",
    "task bodies terminate (gates are opened by the program)",
    "scheduling points are the interactions with the simulated kernel (no preemption between two pure-Python statements)",
    "bounded liveness: quiescence = no enabled action; step cap hit = inconclusive, never a violation",
]


def profile(tier):
    return strategies.profile()


def nontrivial(H):
    if any(p["death"] for p in H.procs):
        return True
    if H.timers_fired and any(f["state"] for f in H.futures.values()):
        return True
    kinds = {f["spec"]["kind"] for f in H.futures.values()}
    if kinds & {"unp_arg", "struct_arg", "unl_arg", "unp_res", "unl_res"}:
        return True
    if len(H.case["program"]) >= 2:
        return True
    return any(o["op"][0] in ("shutdown", "del", "exit") for o in H.ops)


def oracle(H):
    return oracles.liveness(H)


SWEEP = (4, 150)

from props._simprop import install  # noqa: E402
install(globals(), ID, 4000, 60000)

_run_c01 = run


def run(tier, seed):
    """C01 also carries the primitive-conformance self-test of the SIM kernel (a disagreement is a harness error)."""
    from vlib import common
    from vlib.shards import run_jobs
    acc = _run_c01(tier, seed)
    n = 300 if tier == "quick" else 4000
    a2, _ = run_jobs([{"module": "selftest.conformance", "func": "shard", "kwargs": {"seed": common.derive_seed(seed, "conf", i), "n": n // 4}}
                      for i in range(4)], tag="conformance")
    acc.count("conformance_sequences", a2.evaluations)
    return acc
