"""Driver for C10 (REAL): resize with the resizing thread delayed at a fault point while workers time out or die."""
import json
import os
import sys
import threading
import time
import warnings

sys.path.insert(0, os.environ["LOKY_REPO"])
prog = json.load(open(sys.argv[1]))
outdir = sys.argv[2]
warnings.simplefilter("ignore")
from loky import get_reusable_executor
from props import c10_task as T


def emit(**kw):
    print(json.dumps(kw))
    sys.stdout.flush()


flag = os.path.join(outdir, "die_flag")
kw = dict(timeout=prog["timeout"], initializer=T.init, initargs=(flag,))
ex = get_reusable_executor(max_workers=prog["old"], **kw)
vals = [ex.submit(T.ident, i).result(timeout=60) for i in range(prog["ntasks"])]
before = sorted(ex._processes)
if prog["idle_first"]:
    time.sleep((prog["timeout"] or 0) * 3 + 0.1)
if prog["new_worker_dies"]:
    open(flag, "w").close()
res = {}


def resize():
    try:
        e = get_reusable_executor(max_workers=prog["new"], **kw)
        res["ok"] = True
        res["same"] = e is ex
        res["broken"] = type(e._flags.broken).__name__ if e._flags.broken else None
        res["pids"] = sorted(e._processes)
    except BaseException as exc:
        import traceback
        res["exc"] = f"{type(exc).__name__}: {exc}"[:300]
        res["tb"] = [f"{f.filename.rsplit('/', 1)[-1]}:{f.lineno}:{f.name}" for f in traceback.extract_tb(exc.__traceback__)[-6:]]


t0 = time.time()
th = threading.Thread(target=resize, daemon=True)
th.start()
th.join(45)
returned = not th.is_alive()
dt = time.time() - t0
if os.path.exists(flag):
    os.unlink(flag)
after = None
if returned and res.get("ok"):
    try:
        e2 = get_reusable_executor(max_workers=prog["new"], **kw)
        after = [e2.submit(T.ident, 100 + i).result(timeout=60) for i in range(3)]
    except BaseException as exc:
        after = f"{type(exc).__name__}: {exc}"[:300]
emit(returned=returned, dt=dt, res=res, before=before, vals=vals, after=after)
emit(done=True)
sys.stdout.flush()
os._exit(0)
