"""Driver for C19 (REAL): recursive executor creation under LOKY_MAX_DEPTH (set in the environment by the harness)."""
import json
import os
import sys

sys.path.insert(0, os.environ["LOKY_REPO"])
prog = json.load(open(sys.argv[1]))
from props.c19_task import level

out = level(0, prog)
print(json.dumps({"tree": out}))
sys.stdout.flush()
