"""Driver for C13 (REAL): histories of creating / discarding loky synchronisation objects and executors, then an ending."""
import gc
import glob
import json
import os
import sys
import time
import warnings

sys.path.insert(0, os.environ["LOKY_REPO"])
prog = json.load(open(sys.argv[1]))
outdir = sys.argv[2]
warnings.simplefilter("ignore")
if prog.get("werror"):
    # the interpreter runs with warnings as errors (-W error): the flag is handed down to every child it starts, the
    # resource tracker included (the driver's own filters stay as they are)
    sys.warnoptions.append("error")
from loky.backend import get_context
from loky.process_executor import ProcessPoolExecutor, BrokenProcessPool
from props import c13_task as T

ctx = get_context("loky")
ME = os.getpid()


def sems():
    return sorted(glob.glob(f"/dev/shm/sem.loky-{ME}-*"))


def emit(**kw):
    print(json.dumps(kw))
    sys.stdout.flush()


objs = {}
emit(start=True, pid=ME, sems=sems())
if prog.get("threads_first"):
    # the very first tracked operations of the process come from several threads at once (the tracker is being launched)
    import threading
    n = prog["threads_first"]
    bar = threading.Barrier(n)
    made = {}

    def mk(j):
        bar.wait(10)
        made[j] = ctx.Lock()

    before = sems()
    ths = [threading.Thread(target=mk, args=(j,)) for j in range(n)]
    [t.start() for t in ths]
    [t.join(30) for t in ths]
    time.sleep(0.3)
    names = [s for s in sems() if s not in before]
    for j, o in made.items():
        objs[f"t{j}"] = ("Lock", o, [f"/dev/shm/sem.{o._semlock.name[1:]}"])
    emit(threads_first=n, created=len(made), names=len(names))
for k, op in enumerate(prog["ops"]):
    name = op[0]
    if name == "new":
        before = sems()
        kind = op[2]
        if kind == "executor":
            o = ProcessPoolExecutor(max_workers=op[3], timeout=op[4])
            o.submit(T.ident, 1).result(timeout=60)
        elif kind == "Semaphore":
            o = ctx.Semaphore(2)
        elif kind == "BoundedSemaphore":
            o = ctx.BoundedSemaphore(2)
        elif kind == "Queue":
            o = ctx.Queue(3)
        elif kind == "NamedSem":
            from loky.backend.synchronize import SemLock, SEMAPHORE
            o = SemLock(SEMAPHORE, 1, 1, name=f"/loky-{os.getpid()}-n{k}:a:b")
        else:
            o = getattr(ctx, kind)()
        objs[op[1]] = (kind, o, [s for s in sems() if s not in before])
        emit(k=k, op=op, created=objs[op[1]][2])
    elif name == "del":
        if op[1] not in objs:
            continue
        kind, o, names = objs.pop(op[1])
        if kind == "executor":
            o.shutdown(wait=True)
        elif kind == "Queue":
            o.close()
            o.join_thread()
        del o
        gc.collect()
        emit(k=k, op=op, names=names, still_there=[s for s in names if os.path.exists(s)])
    elif name == "unlink_behind":
        # something else (user code, an external /dev/shm cleaner) unlinks the names behind loky's back
        if op[1] not in objs or objs[op[1]][0] == "executor":
            continue
        import _multiprocessing
        gone = []
        for sname in objs[op[1]][2]:
            try:
                _multiprocessing.sem_unlink("/" + os.path.basename(sname)[len("sem."):])
                gone.append(sname)
            except FileNotFoundError:
                pass
        prog["unlinked_behind"] = True
        emit(k=k, op=op, unlinked=gone)
    elif name == "send":
        if op[1] not in objs or objs[op[1]][0] == "executor":
            continue
        kind, o, names = objs[op[1]]
        p = ctx.Process(target=T.use, args=(o, kind, op[2]))
        p.start()
        p.join(60)
        if kind in ("Queue", "SimpleQueue"):
            o.get(timeout=30) if kind == "Queue" else o.get()
        emit(k=k, op=op, child_exit=p.exitcode, child_pid=p.pid)
    elif name == "submit":
        if op[1] in objs and objs[op[1]][0] == "executor":
            emit(k=k, op=op, r=objs[op[1]][1].submit(T.ident, op[2]).result(timeout=60))
    elif name == "crash":
        if op[1] in objs and objs[op[1]][0] == "executor":
            try:
                objs[op[1]][1].submit(T.die, 3).result(timeout=60)
            except BrokenProcessPool:
                emit(k=k, op=op, broken=True)
    elif name == "pause_for_kill":
        emit(k=k, op=op, at=k, sems=sems(), pid=ME)
        time.sleep(300)
time.sleep(0.2)
missing_live = [s for key, (kind, o, names) in objs.items() if kind != "executor" and not prog.get("unlinked_behind")
                for s in names if not os.path.exists(s)]
emit(live=sorted(objs), sems=sems(), ending=prog["ending"], missing_live=missing_live)
end = prog["ending"]
if end == "release_all_then_exit":
    for key in list(objs):
        kind, o, names = objs.pop(key)
        if kind == "executor":
            o.shutdown(wait=True)
        elif kind == "Queue":
            o.close(); o.join_thread()
        del o
    gc.collect()
    emit(released=True, sems=sems())
    sys.exit(0)
if end == "exit":
    sys.exit(0)
if end == "exception":
    raise RuntimeError("uncaught exception ends the parent")
if end == "os_exit":
    os._exit(0)
