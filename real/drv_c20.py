"""Driver for C20 (REAL): run a list of executor lifecycles k+1 times, measure parent-side resources after each repetition."""
import gc
import glob
import json
import os
import sys
import threading
import time
import warnings

sys.path.insert(0, os.environ["LOKY_REPO"])
prog = json.load(open(sys.argv[1]))
import psutil
from loky.process_executor import ProcessPoolExecutor, BrokenProcessPool, ShutdownExecutorError
from loky import get_reusable_executor
from props import c20_task as T

warnings.simplefilter("ignore")
ME = os.getpid()


def measure():
    gc.collect()
    fds = {}
    for n in os.listdir("/proc/self/fd"):
        try:
            fds[n] = os.readlink(f"/proc/self/fd/{n}")
        except OSError:
            pass
    kids = []
    for c in psutil.Process().children(recursive=False):
        try:
            cmd = " ".join(c.cmdline())
            st = c.status()
        except Exception:
            cmd, st = "", "gone"
        if "resource_tracker" in cmd:
            continue            # process-wide trackers started on first use
        kids.append([c.pid, st, cmd[-60:]])
    return {"nfds": len(fds), "fds": sorted(fds.values()), "threads": sorted(t.name for t in threading.enumerate()),
            "children": kids, "sems": sorted(glob.glob(f"/dev/shm/sem.loky-{ME}-*"))}


def settle():
    """Measure until two consecutive measurements agree (asynchronous closes finish), at most ~6 s."""
    last = measure()
    t0 = time.time()
    stable = 0
    while time.time() - t0 < 6:
        time.sleep(0.15)
        m = measure()
        if (m["nfds"], m["threads"], len(m["children"]), m["sems"]) == (last["nfds"], last["threads"], len(last["children"]), last["sems"]):
            stable += 1
            if stable >= 2:
                return m
        else:
            stable = 0
        last = m
    return last


def life(spec):
    kind = spec["kind"]
    w = spec["workers"]
    if kind == "plain_clean":
        ex = ProcessPoolExecutor(max_workers=w)
        assert list(ex.map(T.ident, range(spec["n"]))) == list(range(spec["n"]))
        ex.shutdown(wait=True)
    elif kind == "plain_with":
        with ProcessPoolExecutor(max_workers=w, timeout=spec.get("timeout")) as ex:
            [f.result() for f in [ex.submit(T.ident, i) for i in range(spec["n"])]]
    elif kind == "plain_nowait":
        ex = ProcessPoolExecutor(max_workers=w)
        fs = [ex.submit(T.nap, 0.05) for _ in range(spec["n"])]
        ex.shutdown(wait=False)
        [f.result() for f in fs]
        del ex
    elif kind == "plain_kill":
        ex = ProcessPoolExecutor(max_workers=w)
        fs = [ex.submit(T.nap, 30) for _ in range(spec["n"])]
        time.sleep(0.2)
        ex.shutdown(wait=True, kill_workers=True)
        for f in fs:
            try:
                f.result(timeout=30)
            except ShutdownExecutorError:
                pass
    elif kind == "plain_broken":
        ex = ProcessPoolExecutor(max_workers=w)
        ex.submit(T.ident, 1).result()
        f = ex.submit(T.die, 3)
        try:
            f.result(timeout=60)
        except BrokenProcessPool:
            pass
        ex.shutdown(wait=True)
    elif kind == "plain_broken_bigargs":
        # the pool breaks while large call items are still queued behind a full pipe
        ex = ProcessPoolExecutor(max_workers=1)
        ex.submit(T.ident, 1).result()
        fs = [ex.submit(T.die, 3)]
        for _ in range(spec["n"] + 2):
            try:
                fs.append(ex.submit(T.ident, b"x" * 300000))
            except BrokenProcessPool:
                break          # the pool broke while we were still submitting
        f = None
        for f in fs:
            try:
                f.result(timeout=60)
            except BrokenProcessPool:
                pass
        ex.shutdown(wait=True)
        del ex, fs, f
    elif kind == "plain_broken_tree":
        # the pool breaks while another worker has helper subprocesses (with the fault plan of this kind, one of them exits and
        # is reaped between the listing of that worker's tree and its kill); the executor is released without waiting
        ex = ProcessPoolExecutor(max_workers=2)
        ex.submit(T.ident, 1).result()
        f1 = ex.submit(T.tree_nap, 2 + spec["n"] % 2, 30)
        time.sleep(0.4)
        f2 = ex.submit(T.die, 3)
        for f in (f2, f1):
            try:
                f.result(timeout=60)
            except BrokenProcessPool:
                pass
        ex.shutdown(wait=False)
        del ex, f, f1, f2
        gc.collect()
        time.sleep(0.3)
    elif kind == "reusable_grow_worker_killed":
        # an old worker is killed from outside while a grow request is spawning the additional workers
        ex = get_reusable_executor(max_workers=w, timeout=None)
        list(ex.map(T.ident, range(spec["n"])))
        old = list(ex._processes)
        stop = threading.Event()

        def killer(ex=ex, old=old):
            t0 = time.time()
            while not stop.is_set() and time.time() - t0 < 20:
                if len(ex._processes) > len(old):
                    try:
                        os.kill(old[0], 9)
                    except OSError:
                        pass
                    return
                time.sleep(0.0005)

        th = threading.Thread(target=killer)
        th.start()
        try:
            ex = get_reusable_executor(max_workers=w + 3, timeout=None)
        except Exception:
            pass
        stop.set()
        th.join()
        time.sleep(0.3 * (spec["n"] % 3))
        del ex
        ex = get_reusable_executor(max_workers=w, timeout=None)
        ex.submit(T.ident, 1).result()
        del ex, th
    elif kind == "plain_broken_gc":
        ex = ProcessPoolExecutor(max_workers=w)
        ex.submit(T.ident, 1).result()
        f = ex.submit(T.die, 3)
        try:
            f.result(timeout=60)
        except BrokenProcessPool:
            pass
        if spec["n"] % 2:
            ex.shutdown(wait=False)
        del ex, f
        gc.collect()
    elif kind == "plain_pickle_error_gc":
        ex = ProcessPoolExecutor(max_workers=w)
        ex.submit(T.ident, 1).result()
        f = ex.submit(T.ident, T.Unpicklable())
        try:
            f.result(timeout=60)
        except Exception:
            pass
        del ex, f
        gc.collect()
    elif kind == "plain_gc":
        ex = ProcessPoolExecutor(max_workers=w)
        ex.submit(T.ident, 1).result()
        del ex
        gc.collect()
    elif kind == "plain_idle":
        ex = ProcessPoolExecutor(max_workers=w, timeout=0.1)
        ex.submit(T.ident, 1).result()
        time.sleep(0.6)
        ex.submit(T.ident, 2).result()
        ex.shutdown(wait=True)
    elif kind == "plain_nested":
        with ProcessPoolExecutor(max_workers=w) as ex:
            assert ex.submit(T.nested, 3).result() == 3
    elif kind == "reusable_clean":
        ex = get_reusable_executor(max_workers=w, timeout=spec.get("timeout", 10))
        list(ex.map(T.ident, range(spec["n"])))
    elif kind == "reusable_resize":
        ex = get_reusable_executor(max_workers=w, timeout=10)
        list(ex.map(T.ident, range(spec["n"])))
        ex = get_reusable_executor(max_workers=w + 1, timeout=10)
        list(ex.map(T.ident, range(spec["n"])))
        ex = get_reusable_executor(max_workers=max(1, w - 1), timeout=10)
        list(ex.map(T.ident, range(spec["n"])))
    elif kind == "reusable_broken":
        ex = get_reusable_executor(max_workers=w, timeout=10)
        try:
            ex.submit(T.die, 4).result(timeout=60)
        except BrokenProcessPool:
            pass
        ex = get_reusable_executor(max_workers=w, timeout=10)
        ex.submit(T.ident, 1).result()
    elif kind == "reusable_kill":
        ex = get_reusable_executor(max_workers=w, timeout=10)
        fs = [ex.submit(T.nap, 30) for _ in range(w)]
        time.sleep(0.2)
        ex = get_reusable_executor(max_workers=w, timeout=11 + spec["n"], kill_workers=True)
        ex.submit(T.ident, 1).result()
    elif kind == "reusable_idle":
        ex = get_reusable_executor(max_workers=w, timeout=0.1)
        ex.submit(T.ident, 1).result()
        time.sleep(0.6)
        ex.submit(T.ident, 2).result()
    else:
        raise SystemExit(f"unknown lifecycle {kind}")


def run_list():
    for spec in prog["lives"]:
        life(spec)
    # the executors involved complete shutdown and are released
    get_reusable_executor().shutdown(wait=True)
    gc.collect()


ms = []
for rep in range(prog["reps"] + 1):
    run_list()
    m = settle()
    ms.append(m)
    print(json.dumps({"rep": rep, "m": m}))
    sys.stdout.flush()
print(json.dumps({"done": True}))
sys.stdout.flush()
os._exit(0)
