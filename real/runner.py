"""REAL engine helpers: run a driver script in a fresh interpreter (own session, files not pipes), with a watchdog,
collect its JSON output, and always kill the whole session afterwards."""
import json
import os
import shutil
import signal
import subprocess
import tempfile
import time

from vlib import common
from vlib.common import HarnessError

REAL_DIR = os.path.dirname(os.path.abspath(__file__))


def workdir(tag):
    base = os.path.join(common.WORK, f"{tag}-{os.getpid()}")
    os.makedirs(base, exist_ok=True)
    return base


def _default_signals():
    """The driver starts with default signal dispositions whatever this process inherited (a shell that runs the check in
    the background without job control hands SIGINT and SIGQUIT down as *ignored*, and ignored signals survive exec)."""
    import signal
    for sig in range(1, 65):
        if sig in (signal.SIGKILL, signal.SIGSTOP, 32, 33):
            continue
        try:
            signal.signal(sig, signal.SIG_DFL)
        except (OSError, ValueError, RuntimeError):
            pass


def run_driver(script, prog, base, timeout=120, env_extra=None, hooks=False, python=None):
    """Runs real/<script> <prog.json> <outdir>. Returns dict(rc, out(list of json objects), err(str), timed_out, pgid_left)."""
    d = tempfile.mkdtemp(dir=base)
    pf = os.path.join(d, "prog.json")
    with open(pf, "w") as fh:
        json.dump(prog, fh)
    env = dict(os.environ)
    env["PYTHONPATH"] = os.pathsep.join([common.REPO, common.VERIF])
    env["LOKY_REPO"] = common.REPO
    env["PYTHONHASHSEED"] = "0"
    env["PYTHONDONTWRITEBYTECODE"] = "1"
    env.pop(common.GUARD, None)
    env.pop("LOKY_VERIF_PLAN", None)
    if hooks:
        env[common.GUARD] = "1"
    if env_extra:
        env.update({k: str(v) for k, v in env_extra.items()})
    outf, errf = os.path.join(d, "out.jsonl"), os.path.join(d, "err.txt")
    t0 = time.monotonic()
    with open(outf, "w") as out, open(errf, "w") as err:
        p = subprocess.Popen([python or common.PY, "-u", os.path.join(REAL_DIR, script), pf, d], stdout=out, stderr=err,
                             stdin=subprocess.DEVNULL, env=env, cwd=d, start_new_session=True, preexec_fn=_default_signals)
        timed_out = False
        try:
            rc = p.wait(timeout=timeout)
        except subprocess.TimeoutExpired:
            timed_out = True
            rc = None
    res = {"rc": rc, "timed_out": timed_out, "dir": d, "pid": p.pid, "wall": time.monotonic() - t0}
    res["survivors"] = session_pids(p.pid) if not timed_out else []
    return res, p


def finish(res, p):
    """Kill whatever is left of the driver's session and read its output. Call exactly once."""
    try:
        os.killpg(p.pid, signal.SIGKILL)
    except (ProcessLookupError, PermissionError):
        pass
    try:
        p.wait(timeout=10)
    except Exception:
        pass
    out = []
    try:
        with open(os.path.join(res["dir"], "out.jsonl")) as fh:
            for line in fh:
                line = line.strip()
                if line.startswith("{"):
                    try:
                        out.append(json.loads(line))
                    except ValueError:
                        pass
    except OSError:
        pass
    try:
        with open(os.path.join(res["dir"], "err.txt")) as fh:
            res["err"] = fh.read()[-6000:]
    except OSError:
        res["err"] = ""
    res["out"] = out
    shutil.rmtree(res["dir"], ignore_errors=True)
    return res


def run(script, prog, base, timeout=120, env_extra=None, hooks=False):
    res, p = run_driver(script, prog, base, timeout, env_extra, hooks)
    return finish(res, p)


def session_pids(sid):
    """Pids (with state) of live processes whose session id is `sid` (zombies included)."""
    out = []
    for d in os.listdir("/proc"):
        if not d.isdigit():
            continue
        try:
            with open(f"/proc/{d}/stat") as fh:
                st = fh.read()
            rp = st.rfind(")")
            f = st[rp + 2:].split()
            if int(f[3]) == sid:
                out.append((int(d), f[0], st[st.find("(") + 1:rp]))
        except (OSError, ValueError, IndexError):
            pass
    return out


def require_ok(res, what):
    if res["timed_out"]:
        raise HarnessError(f"{what}: driver watchdog expired; stderr tail: {res.get('err', '')[-800:]}")
    if res["rc"] != 0:
        raise HarnessError(f"{what}: driver exited rc={res['rc']}; stderr tail: {res.get('err', '')[-1500:]}")
