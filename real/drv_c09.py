"""Driver for C09 (REAL): a sequential history of factory calls, submits, crashes, outside kills of idle workers, shutdowns."""
import json
import os
import sys
import time
import warnings

sys.path.insert(0, os.environ["LOKY_REPO"])
prog = json.load(open(sys.argv[1]))
outdir = sys.argv[2]
warnings.simplefilter("ignore")
from loky import get_reusable_executor
from props import c09_task as T


def emit(**kw):
    print(json.dumps(kw))
    sys.stdout.flush()


def alive(pid):
    try:
        st = open(f"/proc/{pid}/stat").read().split(")")[-1].split()[0]
        return st != "Z"
    except OSError:
        return False


def outcome(f, timeout=60):
    try:
        return ["val", f.result(timeout=timeout)]
    except BaseException as e:
        names = [c.__name__ for c in type(e).__mro__]
        if "TimeoutError" in names and not f.done():
            return ["TIMEOUT"]
        return ["exc", type(e).__name__, names]


objs = []           # distinct executor objects handed out, in order (kept alive: identity by index)


def state(ex):
    procs = dict(ex._processes)
    return {"obj": objs.index(ex), "executor_id": ex.executor_id, "broken": bool(ex._flags.broken), "shutdown": bool(ex._flags.shutdown),
            "max_workers": ex._max_workers, "registered": sorted(procs), "live": sorted(p for p in procs if alive(p)),
            "started": ex._executor_manager_thread is not None}


ex = None
tok = 0
log = []
for op in prog["ops"]:
    rec = {"op": op}
    try:
        if op[0] == "get":
            a = op[1]
            before = state(ex) if ex is not None else None
            prev_pids = list(ex._processes) if ex is not None else []
            t0 = time.time()
            new = get_reusable_executor(max_workers=a["max_workers"], timeout=a["timeout"], reuse=a["reuse"], kill_workers=a["kill_workers"])
            if new not in objs:
                objs.append(new)
            rec["before"] = before
            rec["after"] = state(new)
            rec["dt"] = time.time() - t0
            rec["prev_workers_alive_at_return"] = [p for p in prev_pids if alive(p)] if new is not ex else []
            ex = new
        elif op[0] == "echo":
            rec["out"] = outcome(ex.submit(T.echo, tok))
            rec["tok"] = tok
            tok += 1
        elif op[0] == "crash":
            rec["out"] = outcome(ex.submit(T.die, op[1]))
        elif op[0] == "ext_kill":
            pids = sorted(ex._processes)
            rec["registered"] = pids
            if pids and not ex._flags.shutdown and not ex._flags.broken:
                victim = pids[op[1] % len(pids)]
                rec["victim"] = victim
                os.kill(victim, op[2])
                # the death of a watched worker is flagged within moments; 10 s is "never"
                t0 = time.time()
                while time.time() - t0 < 10 and not ex._flags.broken:
                    time.sleep(0.02)
                rec["flagged_after"] = time.time() - t0 if ex._flags.broken else None
        elif op[0] == "shutdown":
            ex.shutdown(wait=op[1], kill_workers=op[2])
        elif op[0] == "idle":
            time.sleep(op[1])
    except BaseException as e:
        import traceback
        rec["raised"] = [type(e).__name__, str(e)[:300],
                         [f"{f.filename.rsplit('/', 1)[-1]}:{f.lineno}:{f.name}" for f in traceback.extract_tb(e.__traceback__)[-5:]]]
    log.append(rec)
emit(log=log)
emit(done=True)
sys.stdout.flush()
os._exit(0)
