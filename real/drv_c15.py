"""Driver for C15 (REAL): executors with per-executor reducers; pickler selection around submits."""
import json
import os
import sys
import time

sys.path.insert(0, os.environ["LOKY_REPO"])
prog = json.load(open(sys.argv[1]))
from loky.process_executor import ProcessPoolExecutor
from loky.backend import reduction
from props import c15_objs as O


def red(key):
    return None if key is None else {O.Marker: O.REDUCERS[key]}


exs = []
for e in prog["executors"]:
    exs.append(ProcessPoolExecutor(max_workers=e["max_workers"], job_reducers=red(e["job"]), result_reducers=red(e["result"]),
                                   timeout=20))
subs = []
for st in prog["steps"]:
    if st[0] == "set":
        reduction.set_loky_pickler(st[1])
    elif st[0] == "submit":
        _, ei, v, delay = st
        name = reduction.get_loky_pickler_name()
        if delay:
            f = exs[ei].submit(O.slow_probe, O.Marker(v), v, delay)
        else:
            f = exs[ei].submit(O.probe, O.Marker(v), v)
        subs.append((ei, v, name, f))
    elif st[0] == "local":
        # a plain dumps in the parent between submissions must be unaffected by any executor's reducers
        r = reduction.loads(bytes(reduction.dumps(O.Marker(st[1]))))
        print(json.dumps({"local": O.describe(r), "v": st[1]}))
for ei, v, name, f in subs:
    try:
        r = f.result(timeout=60)
        print(json.dumps({"e": ei, "v": v, "submit_pickler": name, "arg": r["arg"], "worker_pickler": r["pickler"],
                          "ret": O.describe(r["ret"])}))
    except BaseException as e:
        print(json.dumps({"e": ei, "v": v, "submit_pickler": name, "error": f"{type(e).__name__}: {e}"[:300]}))
for ex in exs:
    ex.shutdown(wait=True)
print(json.dumps({"done": True}))
sys.stdout.flush()
