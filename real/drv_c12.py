"""Driver (root of the tree) for C12 (REAL)."""
import json
import os
import sys
import time
import warnings

sys.path.insert(0, os.environ["LOKY_REPO"])

if __name__ == "__mp_main__":
    # This script is re-imported as __mp_main__ in children started with 'loky_init_main': a tracked operation at module
    # level (like a global lock or a registered temporary folder in a user's script) must already reach the shared tracker.
    try:
        from loky.backend import resource_tracker as _rt

        _f = os.path.join(os.getcwd(), "import_%d.txt" % os.getpid())
        open(_f, "w").close()
        _rt.register(_f, "file")
        with open(os.path.join(os.getcwd(), "import_%d.json" % os.getpid()), "w") as _fh:
            json.dump({"pid": os.getpid(), "tracker_pid_at_import": _rt._resource_tracker._pid}, _fh)
    except BaseException as _e:  # pragma: no cover
        with open(os.path.join(os.getcwd(), "import_%d.json" % os.getpid()), "w") as _fh:
            json.dump({"pid": os.getpid(), "error": repr(_e)}, _fh)


def main():
    prog = json.load(open(sys.argv[1]))
    outdir = sys.argv[2]
    from loky.backend import resource_tracker as rt
    from props.c12_task import node


    def emit(**kw):
        print(json.dumps(kw))
        sys.stdout.flush()


    if prog["mode"] == "tree":
        rt.ensure_running()
        canary = os.path.join(outdir, "canary.txt")
        open(canary, "w").close()
        rt.register(canary, "file")
        emit(root=os.getpid(), tracker=rt._resource_tracker._pid, canary=canary)
        node(prog["tree"], outdir, "r")
    else:
        # self-healing: kill the tracker k times; each next tracked operation must transparently start a new one
        rt.ensure_running()
        pids = [rt._resource_tracker._pid]
        evs = []
        for i in range(prog["kills"]):
            f = os.path.join(outdir, f"heal{i}.txt")
            open(f, "w").close()
            victim = rt._resource_tracker._pid
            try:
                os.kill(victim, 9)
            except (ProcessLookupError, TypeError) as e:
                evs.append({"err": f"the client's tracker handle is inconsistent before kill {i + 1}: pid {victim!r} ({type(e).__name__})",
                            "new_pid": victim, "warned": True, "child": None})
                pids.append(victim)
                break
            t0 = time.time()
            while time.time() - t0 < 20:         # the signal is asynchronous: wait until the tracker is really dead
                try:
                    if open(f"/proc/{victim}/stat").read().split(")")[-1].split()[0] == "Z":
                        break
                except OSError:
                    break
                time.sleep(0.002)
            time.sleep(prog["gap"])
            child = None
            if prog.get("interrupted_relaunch"):
                # first attempt with warnings turned into errors: the relaunch is interrupted after the dead handle was dropped
                with warnings.catch_warnings():
                    warnings.simplefilter("error")
                    try:
                        rt.register(f + ".first", "file")
                    except BaseException:
                        pass
            if prog["op"] == "threads":
                import threading
                n = prog.get("nthreads", 3)
                bar = threading.Barrier(n)
                errs, files = [], []

                def reg(j):
                    p_ = f + f".t{j}"
                    open(p_, "w").close()
                    files.append(p_)
                    try:
                        bar.wait(10)
                        rt.register(p_, "file")
                    except BaseException as e:
                        errs.append(f"{type(e).__name__}: {e}")

                ths = [threading.Thread(target=reg, args=(j,)) for j in range(n)]
                with warnings.catch_warnings(record=True) as wl:
                    warnings.simplefilter("always")
                    [t.start() for t in ths]
                    [t.join(30) for t in ths]
                time.sleep(0.5)          # a tracker that wrongly saw EOF would have cleaned the files up by now
                missing = [os.path.basename(p_) for p_ in files if not os.path.exists(p_)]
                evs.append({"err": "; ".join(errs) or None, "new_pid": rt._resource_tracker._pid,
                            "warned": any("relaunching" in str(x.message) for x in wl) or bool(prog.get("interrupted_relaunch")),
                            "child": None, "files_missing": missing})
                pids.append(rt._resource_tracker._pid)
                continue
            with warnings.catch_warnings(record=True) as wl:
                warnings.simplefilter("always")
                try:
                    if prog["op"] == "spawn":
                        from loky.backend import get_context
                        from props.c12_task import heal_child
                        rep = os.path.join(outdir, f"child{i}.json")
                        p = get_context("loky").Process(target=heal_child, args=(rep, f))
                        p.start()
                        p.join(60)
                        child = json.load(open(rep)) if os.path.exists(rep) else {"error": "no report", "exitcode": p.exitcode}
                        rt.register(f + ".root", "file")       # the root's own next tracked operation
                    elif prog["op"] == "register":
                        rt.register(f, "file")
                    else:
                        rt.maybe_unlink(f, "file") if False else rt.unregister(f, "file")
                    err = None
                except BaseException as e:
                    err = f"{type(e).__name__}: {e}"
            evs.append({"err": err, "new_pid": rt._resource_tracker._pid,
                        "warned": any("relaunching" in str(x.message) for x in wl) or bool(prog.get("interrupted_relaunch")),
                        "child": child})
            pids.append(rt._resource_tracker._pid)
        # the last tracker works: a registered file is removed on maybe_unlink
        g = os.path.join(outdir, "final.txt")
        open(g, "w").close()
        final_err = None
        try:
            rt.register(g, "file")
            rt.maybe_unlink(g, "file")
            t0 = time.time()
            while os.path.exists(g) and time.time() - t0 < 20:
                time.sleep(0.01)
        except BaseException as e:
            final_err = f"{type(e).__name__}: {e}"
        emit(heal=evs, pids=pids, final_removed=not os.path.exists(g), final_err=final_err)
    emit(done=True)


if __name__ == "__main__":
    main()
