"""Driver for C06 (REAL): forced shutdown of a pool whose tasks own descendants; with or without psutil."""
import json
import os
import sys
import time
import warnings

sys.path.insert(0, os.environ["LOKY_REPO"])
prog = json.load(open(sys.argv[1]))
outdir = sys.argv[2]
if not prog["psutil"]:
    sys.modules["psutil"] = None          # loky falls back to pgrep/kill
warnings.simplefilter("ignore")
from loky.process_executor import ProcessPoolExecutor, ShutdownExecutorError
from loky import get_reusable_executor
from props import c06_task as T


def emit(**kw):
    print(json.dumps(kw))
    sys.stdout.flush()


reusable = prog["via"] == "reusable_kill"
if reusable:
    ex = get_reusable_executor(max_workers=prog["workers"], timeout=30)
else:
    ex = ProcessPoolExecutor(max_workers=prog["workers"])
futs = []
for i, spec in enumerate(prog["tasks"]):
    futs.append(ex.submit(T.job, spec, outdir, f"t{i}"))
# wait until every dispatched task recorded its pids (tasks beyond the number of workers stay queued)
t0 = time.time()
n_run = min(len(prog["tasks"]), prog["workers"]) if not any(s.get("finish") for s in prog["tasks"]) else None
while time.time() - t0 < 60:
    recs = [f for f in os.listdir(outdir) if f.startswith("pids_t") and "_nw" not in f and f.endswith(".json")]
    done = sum(1 for f in futs if f.done())
    if n_run is not None and len(recs) >= n_run:
        break
    if n_run is None and done + sum(1 for i, s in enumerate(prog["tasks"]) if not s.get("finish") and f"pids_t{i}.json" in recs) >= min(len(futs), done + prog["workers"]):
        if all(f.done() for f, s in zip(futs, prog["tasks"]) if s.get("finish")) or time.time() - t0 > 20:
            break
    time.sleep(0.02)
time.sleep(prog["delay"])
workers = sorted(ex._processes)
states_before = [f._state for f in futs]
t1 = time.time()
if reusable:
    ex2 = get_reusable_executor(max_workers=prog["workers"], timeout=31, kill_workers=True)
else:
    ex.shutdown(wait=True, kill_workers=True)
dt = time.time() - t1
outs = []
for f in futs:
    try:
        outs.append(["ret", f.result(timeout=30)])
    except ShutdownExecutorError:
        outs.append(["ShutdownExecutorError"])
    except BaseException as e:
        outs.append(["other", type(e).__name__, [c.__name__ for c in type(e).__mro__]])
ends = sorted(f for f in os.listdir(outdir) if f.startswith("end_"))
emit(workers=workers, call_s=dt, states_before=states_before, outcomes=outs, end_markers=ends)
if reusable:
    ex2.shutdown(wait=True)
emit(done=True)
sys.stdout.flush()
os._exit(0)
