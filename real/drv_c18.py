"""Driver for C18 (REAL): descriptors, environment overlay, exit status / sentinel, initializer on every worker,
no re-run of __main__ under the default 'loky' start method."""
import json
import os
import socket
import subprocess
import sys
import time
import warnings

sys.path.insert(0, os.environ["LOKY_REPO"])
prog = json.load(open(sys.argv[1]))
outdir = sys.argv[2]
from multiprocessing.connection import wait as mpwait
from loky.process_executor import ProcessPoolExecutor
from loky.backend import get_context
from loky import get_reusable_executor
from props import c18_task as T


def emit(**kw):
    print(json.dumps(kw))
    sys.stdout.flush()


warnings.simplefilter("ignore")
# a sitecustomize module on the children's path records the environment at interpreter start-up (before anything else)
with open(os.path.join(outdir, "sitecustomize.py"), "w") as fh:
    fh.write("import os, sys\nsys._c18_env_at_startup = dict(os.environ)\n")
os.environ["PYTHONPATH"] = outdir + os.pathsep + os.environ.get("PYTHONPATH", "")
# ---------------------------------------------------------------- descriptors + environment
if prog.get("fds") is not None:
    keys = sorted(prog["env"]) + ["HOME", "PATH", "C18_ABSENT"]
    ex0 = ProcessPoolExecutor(max_workers=1)
    base = ex0.submit(T.report, keys).result(timeout=60)
    ex0.shutdown()
    extras = []
    keep = []
    for i, spec in enumerate(prog["fds"]):
        if spec["kind"] == "file":
            f = open(os.path.join(outdir, f"extra{i}.txt"), "w")
            keep.append(f)
            fd = f.fileno()
        elif spec["kind"] == "pipe":
            r, w = os.pipe()
            keep.append((r, w))
            fd = r if i % 2 else w
        else:
            s = socket.socket(socket.AF_INET, socket.SOCK_STREAM)
            keep.append(s)
            fd = s.fileno()
        os.set_inheritable(fd, bool(spec["inheritable"]))
        if spec.get("dup_to") and spec["dup_to"] != fd:
            try:
                os.close(spec["dup_to"])
            except OSError:
                pass
            os.dup2(fd, spec["dup_to"], inheritable=bool(spec["inheritable"]))
            fd = spec["dup_to"]
        extras.append({"fd": fd, "target": os.readlink(f"/proc/self/fd/{fd}"), "inheritable": os.get_inheritable(fd)})
    parent_env = {k: os.environ.get(k) for k in keys}
    ex1 = ProcessPoolExecutor(max_workers=1, env=prog["env"] or None)
    rep = ex1.submit(T.report, keys).result(timeout=60)
    ex1.shutdown()
    emit(part="fds_env", baseline=base, worker=rep, extras=extras, parent_env=parent_env, overlay=prog["env"])
    if prog.get("env_change"):
        # a worker that joins the pool later (respawn after an idle time-out) must see the parent's environment as it is
        # THEN, overlaid with env=
        ex2 = ProcessPoolExecutor(max_workers=1, env=prog["env"] or None, timeout=0.2)
        os.environ["C18_DYN"] = "before"
        os.environ["C18_DEL"] = "present"
        first = ex2.submit(T.report, keys + ["C18_DYN", "C18_DEL", "C18_LATE"]).result(timeout=60)
        os.environ["C18_DYN"] = "after"
        del os.environ["C18_DEL"]
        os.environ["C18_LATE"] = "late"
        time.sleep(1.0)
        second = ex2.submit(T.report, keys + ["C18_DYN", "C18_DEL", "C18_LATE"]).result(timeout=60)
        ex2.shutdown()
        parent_now = {k: os.environ.get(k) for k in keys + ["C18_DYN", "C18_DEL", "C18_LATE"]}
        emit(part="env_change", first_pid=first["pid"], second_pid=second["pid"], second_env=second["env_at_startup"],
             parent_now=parent_now, overlay=prog["env"])

# ---------------------------------------------------------------- exit status and sentinel
for i, spec in enumerate(prog.get("exits", [])):
    ctx = get_context("loky")
    ready, gate = os.path.join(outdir, f"ready{i}"), os.path.join(outdir, f"gate{i}")
    p = ctx.Process(target=T.exit_with, args=(spec, ready, gate))
    p.start()
    t0 = time.time()
    while not os.path.exists(ready) and time.time() - t0 < 60:
        time.sleep(0.005)
    before = {"alive": p.is_alive(), "exitcode": p.exitcode, "sentinel_ready": bool(mpwait([p.sentinel], 0))}
    open(gate, "w").close()
    p.join(60)
    after = {"alive": p.is_alive(), "exitcode": p.exitcode, "sentinel_ready": bool(mpwait([p.sentinel], 0))}
    emit(part="exit", spec=spec, before=before, after=after)

# ---------------------------------------------------------------- initializer on every worker
ini = prog.get("init")
if ini:
    counter = os.path.join(outdir, "spawns.txt")
    kw = dict(max_workers=ini["workers"], timeout=ini["timeout"], initializer=T.init,
              initargs=(ini["mark"], counter, ini["fail_on"], ini["memleak"]))
    reusable = ini["executor"] == "reusable"
    ex = get_reusable_executor(**kw) if reusable else ProcessPoolExecutor(**kw)
    results = []
    for i in range(ini["ntasks"]):
        try:
            r = ex.submit(T.whoami, i).result(timeout=60)
            results.append(["ok", r])
        except BaseException as e:
            results.append(["exc", type(e).__name__, [c.__name__ for c in type(e).__mro__]])
        if ini["gaps"] and i in ini["gaps"]:
            time.sleep((ini["timeout"] * 4 if ini["timeout"] and ini["timeout"] < 1 else 0) + 0.05)
        if reusable and i in ini.get("resize_at", []):
            try:
                ex = get_reusable_executor(**dict(kw, max_workers=ini["workers"] + 1 + i % 2))
            except BaseException as e:
                results.append(["resize_exc", type(e).__name__, [c.__name__ for c in type(e).__mro__]])
    if ini.get("pending_shutdown") and not ini["fail_on"]:
        fs = [ex.submit(T.whoami, 100 + i) for i in range(ini["pending_shutdown"])]
        ex.shutdown(wait=True)
        for f in fs:
            try:
                results.append(["ok", f.result(timeout=60)])
            except BaseException as e:
                results.append(["exc", type(e).__name__, [c.__name__ for c in type(e).__mro__]])
    broke = None
    if ini["fail_on"] and not (reusable and ini.get("resize_at")):
        # a worker whose initializer failed leaves; once it has, the pool must refuse work with the broken-pool error
        t0 = time.time()
        broke = False
        while time.time() - t0 < 8:
            spawns = open(counter).read().split() if os.path.exists(counter) else []
            if len(spawns) <= min(ini["fail_on"]) and all(str(pid) in spawns for pid in list(ex._processes)):
                break                      # the failing spawn index was never reached (and no worker is still booting)
            try:
                ex.submit(T.whoami, -1).result(timeout=60)
            except BaseException as e:
                if "BrokenProcessPool" in [c.__name__ for c in type(e).__mro__]:
                    broke = True
                    break
            time.sleep(0.1)
    try:
        ex.shutdown(wait=True)
    except BaseException:
        pass
    spawns = open(counter).read().split() if os.path.exists(counter) else []
    emit(part="init", results=results, nspawns=len(spawns), broke=broke)

# ---------------------------------------------------------------- __main__ not re-run under 'loky'
if prog.get("main_script"):
    side = os.path.join(outdir, "side.txt")
    script = os.path.join(outdir, "user_script.py")
    with open(script, "w") as fh:
        fh.write(f"import os, sys\nsys.path.insert(0, {os.environ['LOKY_REPO']!r})\n"
                 f"open({side!r}, 'a').write('x\\n')\n"
                 "from loky import get_reusable_executor\n"
                 f"ex = get_reusable_executor(max_workers={prog['main_script']['workers']}, timeout=5)\n"
                 "sq = lambda x: x * x + OFFSET\nOFFSET = 3\n"
                 f"print('RESULT', sum(ex.map(sq, range({prog['main_script']['n']}))))\n")
    if prog["main_script"].get("as_module"):
        cmdl = [sys.executable, "-m", "user_script"]       # the application is started as `python -m app`
    else:
        cmdl = [sys.executable, script]
    r = subprocess.run(cmdl, capture_output=True, text=True, timeout=120, stdin=subprocess.DEVNULL, cwd=outdir)
    lines = open(side).read().splitlines() if os.path.exists(side) else []
    emit(part="main", rc=r.returncode, stdout=r.stdout[-200:], stderr=r.stderr[-300:], side_effects=len(lines),
         expected=sum(x * x + 3 for x in range(prog["main_script"]["n"])))
emit(done=True)
