"""Driver for REAL fault-point checks (C02 confirming part): tasks on a plain executor with a fault plan in the environment."""
import json
import os
import sys
import time
import warnings

sys.path.insert(0, os.environ["LOKY_REPO"])
prog = json.load(open(sys.argv[1]))
outdir = sys.argv[2]
warnings.simplefilter("ignore")
from loky.process_executor import ProcessPoolExecutor
from props import fault_task as T


def emit(**kw):
    print(json.dumps(kw))
    sys.stdout.flush()


def cpu(pid):
    try:
        f = open(f"/proc/{pid}/stat").read().split(")")[-1].split()
        return int(f[11]) + int(f[12]), f[0]
    except (OSError, IndexError, ValueError):
        return None, None


def outcome(f, timeout):
    try:
        r = f.result(timeout=timeout)
        return ["val", list(r[:2])]
    except BaseException as e:
        names = [c.__name__ for c in type(e).__mro__]
        if "TimeoutError" in names and not f.done():
            return ["TIMEOUT"]
        return ["exc", type(e).__name__, names, str(e)[:700]]


ex = ProcessPoolExecutor(max_workers=prog["workers"], timeout=prog["timeout"])
futs = []
workers = set()
for i, t in enumerate(prog["tasks"]):
    try:
        if t[0] == "echo":
            futs.append(ex.submit(T.echo, i))
        elif t[0] == "nap":
            futs.append(ex.submit(T.nap, i, t[1]))
        elif t[0] == "tree":
            futs.append(ex.submit(T.tree, i, t[1]))
        else:
            futs.append(ex.submit(T.big, i, t[1]))
    except BaseException as e:
        futs.append(["submit_raised", type(e).__name__, [c.__name__ for c in type(e).__mro__], str(e)[:700]])
    workers.update(ex._processes)
    if prog.get("gap"):
        time.sleep(prog["gap"])
workers = sorted(workers)
outs = [f if isinstance(f, list) else outcome(f, 40) for f in futs]
stuck = None
if any(o == ["TIMEOUT"] for o in outs):
    import psutil
    procs = [os.getpid()] + [c.pid for c in psutil.Process().children(recursive=True)]
    a = {p: cpu(p) for p in procs}
    time.sleep(2.0)
    b = {p: cpu(p) for p in procs}
    stuck = all(a[p][0] == b[p][0] for p in procs if a[p][0] is not None and b[p][0] is not None)
if prog.get("idle"):
    time.sleep(prog["idle"])
def read_hits():
    h = {}
    for fn in os.listdir(outdir):
        if fn.startswith("hits_"):
            h[fn[5:]] = open(os.path.join(outdir, fn)).read().split()
    return h


ext = None
if prog.get("ext_kill"):
    # an idle worker is killed from outside (kill -9, OOM killer): nothing of loky runs in it at that moment
    pids = sorted(ex._processes)
    if pids:
        ext = pids[prog["ext_kill"]["which"] % len(pids)]
        try:
            os.kill(ext, prog["ext_kill"]["sig"])
        except OSError:
            ext = None
hits_before_probe = read_hits()
time.sleep(1.0)       # a death that has happened by now is detected long before the probe is submitted
broken_before_probe = type(ex._flags.broken).__name__ if ex._flags.broken else None
probe = None
try:
    probe = outcome(ex.submit(T.echo, 999), 40)
except BaseException as e:
    probe = ["submit_raised", type(e).__name__, [c.__name__ for c in type(e).__mro__]]
hits = read_hits()
emit(workers=workers, outcomes=outs, probe=probe, stuck=stuck, hits=hits, hits_before_probe=hits_before_probe, ext_killed=ext, broken=type(ex._flags.broken).__name__ if ex._flags.broken else None)
t0 = time.time()
import threading
done = threading.Event()
th = threading.Thread(target=lambda: (ex.shutdown(wait=True), done.set()), daemon=True)
th.start()
sd = done.wait(40)
alive = [p for p in workers if os.path.exists(f"/proc/{p}") and cpu(p)[1] not in ("Z", None)]
emit(shutdown_returned=sd, workers_alive_after=alive, done=True)
sys.stdout.flush()
os._exit(0)
