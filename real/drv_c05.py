"""Driver for C05 (REAL): graceful shutdown forms with the manager thread delayed at fault points inside the shutdown phase."""
import gc
import json
import os
import sys
import threading
import time
import warnings

sys.path.insert(0, os.environ["LOKY_REPO"])
prog = json.load(open(sys.argv[1]))
outdir = sys.argv[2]
warnings.simplefilter("ignore")
import psutil
from loky.process_executor import ProcessPoolExecutor, ShutdownExecutorError
from props import fault_task as T


def emit(**kw):
    print(json.dumps(kw))
    sys.stdout.flush()


ex = ProcessPoolExecutor(max_workers=prog["workers"], timeout=prog["timeout"])
futs = []
for i, t in enumerate(prog["tasks"]):
    if t[0] == "echo":
        futs.append(ex.submit(T.echo, i))
    elif t[0] == "nap":
        futs.append(ex.submit(T.nap, i, t[1]))
    else:
        futs.append(ex.submit(T.big, i, t[1]))
workers = sorted(ex._processes)
form = prog["form"]
t0 = time.time()
late = None
if form == "wait":
    ex.shutdown(wait=True)
elif form == "nowait":
    ex.shutdown(wait=False)
elif form == "with":
    with ex:
        pass
elif form == "del":
    pass
if form != "del":
    try:
        ex.submit(T.echo, 999)
        late = "accepted"
    except ShutdownExecutorError:
        late = "ShutdownExecutorError"
    except BaseException as e:
        late = type(e).__name__
broken = type(ex._flags.broken).__name__ if ex._flags.broken else None
flags = ex._flags
del ex
gc.collect()
outs = []
for i, f in enumerate(futs):
    try:
        r = f.result(timeout=60)
        outs.append(["val", list(r[:2])])
    except BaseException as e:
        outs.append(["exc", type(e).__name__, [c.__name__ for c in type(e).__mro__]])
# everything must wind down: manager and feeder threads end, every worker leaves and is reaped
t1 = time.time()
while time.time() - t1 < 40:
    th = [t.name for t in threading.enumerate() if t.name.startswith(("ExecutorManagerThread", "QueueFeederThread"))]
    kids = []
    for c in psutil.Process().children():
        try:
            if "resource_tracker" not in " ".join(c.cmdline()):
                kids.append(c.pid)
        except psutil.Error:
            pass                      # gone (or a zombie being reaped) while we looked
    if not th and not kids:
        break
    time.sleep(0.05)
emit(outcomes=outs, late_submit=late, broken=broken, broken_after=type(flags.broken).__name__ if flags.broken else None,
     threads_left=th, children_left=kids, workers=workers, wall=time.time() - t0)
emit(done=True)
sys.stdout.flush()
os._exit(0)
