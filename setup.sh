#!/bin/sh
# Offline bootstrap: make hypothesis (and atheris for two thorough tiers) importable by /venv/bin/python.
# Idempotent; used as MANIFEST.setup_cmd and called by ./check when needed.
set -e
cd "$(dirname "$0")"
PY=/venv/bin/python
if ! PYTHONPATH="$PWD/.deps" $PY -c "import hypothesis" 2>/dev/null; then
    mkdir -p .deps
    PIP_NO_INDEX=1 $PY -m pip install -q --no-index --find-links /opt/veriftools/wheels --target "$PWD/.deps" hypothesis
fi
if ! PYTHONPATH="$PWD/.deps" $PY -c "import atheris" 2>/dev/null; then
    mkdir -p .deps
    PIP_NO_INDEX=1 $PY -m pip install -q --no-index --find-links /opt/veriftools/wheels --target "$PWD/.deps" atheris 2>/dev/null || true
fi
exit 0
