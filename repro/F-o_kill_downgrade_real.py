import sys, time, threading
import loky
from loky import process_executor as pe
print(loky.__file__)
orig = pe._ExecutorManagerThread.is_shutting_down
def slow(self):
    r = orig(self)
    if r:
        time.sleep(0.3)      # the manager thread is descheduled here for a moment
    return r
pe._ExecutorManagerThread.is_shutting_down = slow
ex = pe.ProcessPoolExecutor(max_workers=2)
f = ex.submit(time.sleep, 8)
time.sleep(0.5)
t0 = time.time()
ta = threading.Thread(target=lambda: ex.shutdown(wait=True, kill_workers=True)); ta.start()
time.sleep(0.1)
ex.shutdown(wait=False)           # another thread's graceful shutdown request
ta.join()
dt = time.time() - t0
print("shutdown(kill_workers=True) took %.1fs; future: %r" % (dt, f.exception() if f.done() else "pending"))
sys.exit(1 if dt > 4 else 0)
