import sys, time, threading, os, tempfile
import loky
from loky import get_reusable_executor
print(loky.__file__)
flag = os.path.join(tempfile.gettempdir(), "loky_die_flag_%d" % os.getpid())
def init(flag):
    import os
    if os.path.exists(flag):
        os._exit(3)          # the newly spawned worker dies at start-up
ex = get_reusable_executor(max_workers=1, timeout=100, initializer=init, initargs=(flag,))
assert ex.submit(int, 3).result() == 3
open(flag, "w").close()
from loky.backend.process import LokyProcess
orig = LokyProcess.is_alive
state = {"n": 0}
def slow(self):
    if threading.current_thread().name == "resizer" and state["n"] == 0 and self.pid not in old_pids:
        state["n"] = 1
        time.sleep(2.0)      # the resizing thread is descheduled right after spawning the new worker
    return orig(self)
LokyProcess.is_alive = slow
old_pids = set(ex._processes)
done = threading.Event()
def resize():
    try:
        get_reusable_executor(max_workers=2, timeout=100, initializer=init, initargs=(flag,))
    finally:
        done.set()
t = threading.Thread(target=resize, daemon=True, name="resizer"); t.start()
ok = done.wait(20)
print("get_reusable_executor(max_workers=2) returned within 20 s:", ok, "broken:", ex._flags.broken, "procs", {p: q.exitcode for p, q in list(ex._processes.items())}, "slowcalls", state)
os.unlink(flag)
sys.stdout.flush()
os._exit(0 if ok else 1)
