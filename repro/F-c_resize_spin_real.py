import sys, time, threading, os
import loky
from loky import get_reusable_executor
from loky.backend.process import LokyProcess
print(loky.__file__)
ex = get_reusable_executor(max_workers=1, timeout=0.05)
assert ex.submit(int, 3).result() == 3
orig = LokyProcess.is_alive
state = {"n": 0}
def slow(self):
    if threading.current_thread().name == "resizer" and state["n"] == 0:
        state["n"] = 1
        time.sleep(2.0)      # the resizing thread is descheduled between its snapshot of the workers and the liveness poll
    return orig(self)
done = threading.Event()
def resize():
    ex._wait_job_completion()
    time.sleep(0.5)          # previous worker has idled out
    LokyProcess.is_alive = slow
    e = get_reusable_executor(max_workers=3, timeout=0.05)
    done.set()
t = threading.Thread(target=resize, name="resizer", daemon=True); t.start()
ok = done.wait(20)
print("get_reusable_executor(max_workers=3) returned within 20 s:", ok)
sys.stdout.flush()
os._exit(0 if ok else 1)
