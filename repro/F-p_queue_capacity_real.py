import os, sys, time
os.environ["LOKY_MAX_CPU_COUNT"] = "1"      # e.g. a container limited to one CPU
import loky
from loky import get_reusable_executor
print(loky.__file__)
def task(i):
    import time
    t = time.time(); time.sleep(4); return t
ex = get_reusable_executor(max_workers=4, timeout=100)
ex.submit(int, 1).result()          # workers are up
t0 = time.time()
fs = [ex.submit(task, i) for i in range(4)]
starts = sorted(f.result() - t0 for f in fs)
print("task start times after submission:", [round(s, 2) for s in starts])
late = [s for s in starts if s > 2]
print("tasks that started only after another one finished:", len(late))
ex.shutdown()
sys.exit(1 if late else 0)
